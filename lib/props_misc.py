"""C16 C17 C18 C19 C20."""
import os

from runner import *  # noqa
import vlib


def cpgm():
    return os.path.join(vlib.REPO, "c-interface", "cpgm.cpp")


class C20(Check):
    id = "C20"
    title = "reserved values and invalid arguments are rejected, never silently indexed"
    trace_module = "RejectTrace.tla"
    trace_cfg = "RejectTrace.cfg"
    assumptions = ["the required outcome of each attempt is decided by TLC from the logged raw arguments (RejectTrace.tla follows the Accept/Reject action pairs of Reject.tla)",
                   "for the multidimensional constructor the property names no exception type: any exception is accepted there",
                   "'container exactly as it was' is compared on the full private layout (levels, used_levels, index sizes) read through the friend accessor"]
    rule = ("the violation is placed at every position: reserved key as the last 1..3 elements of arrays of length 1..7 for 10 key types x 5 static classes + the C create functions; "
            "bases 2..255; an unsorted adjacent pair at each position of bulk loads of length 2..7; the reserved mapped value at every step of 6 short histories; "
            "every (lo,hi) in 0..5 x 0..5 for range(); coordinates of fieldbits-3..fieldbits+2 bits at each position and dimension; epsilon -3..3; "
            "a non-increasing key at each position of a run; valid controls are interleaved")

    @property
    def builds(self):
        return [{"name": "rec_reject", "sources": ["rec_reject.cpp", cpgm()]}]

    def models(self, tier):
        return [ModelRun("Reject.tla", "Reject.cfg", "Accept/Reject action pairs, 3 keys + reserved, sequences <= 3", workers=3, timeout=900,
                         constants={"Keys": "0..2", "Reserved": 3, "MaxLen": 3})]

    def recordings(self, tier, seed, bins, work):
        return [Recording("rec_reject", [], "rejections")]


class C18(Check):
    id = "C18"
    title = "the C interface gives the same guarantees as the C++ classes it wraps"
    trace_module = "StaticTrace.tla"
    trace_cfg = "StaticTrace.cfg"
    assumptions = ["the C interface is opaque: only results are observable (tier A); the wrapped classes' internals are bound by C01-C07 / C05-C06-C15",
                   "dynamic part: default configuration of the wrapped class (base 8, buffer of 585 entries); universes of 900-2000 keys so that merges happen",
                   "values equal to the reserved tombstone are outside the property's domain (the C insert function has no error channel)"]
    rule = ("static: every array of S(6,4) + structured generators for int32/int64/uint32/uint64 with epsilon in {1,2,7,64,4096} chosen at run time, "
            "queries as in C01/C02; dynamic: call sequences of create / create_empty / insert_or_assign / erase with find, lower_bound + iterator_next, begin, size "
            "observed every 97 calls, unsorted create must return NULL")

    @property
    def builds(self):
        return [{"name": "rec_capi", "sources": ["rec_capi.cpp", cpgm()]}]

    def pre_record(self, tier, seed, bins, work):
        import props_static
        ms = []
        for eps in (1, 2, 3):
            name = "PGM_capi_e%d" % eps
            ms.append(ModelRun("PGMIndex.tla", props_static.pgm_cfg(work, name, 8, 6, eps, 4, 8, "linear", 1, props_static.PGM_INV), name + " (EpsRec = 4 as in the wrapper)", workers=2, timeout=1500,
                               constants={"U": 8, "N": 6, "Eps": eps, "EpsRec": 4, "Sentinel": 8, "RouteMode": "linear"}))
        ms.append(ModelRun("MCDynamicPGM.tla", "MCDynamicPGM.b9.cfg", "dynamic container: all histories <=9 updates, 4 keys x 2 values", workers=3, timeout=900))
        self._late = ms
        return {}

    def models_late(self):
        return self._late

    def recordings(self, tier, seed, bins, work):
        return [Recording("rec_capi", ["--part", "static"], "C static index"),
                Recording("rec_capi", ["--part", "dynamic"], "C dynamic index", trace=("DynTrace.tla", "DynTrace.cfg"), timeout=900)]


CHECKS = [C18, C20]
