"""C16 C17 C18 C19 C20."""
import json
import os

from runner import *  # noqa
import vlib


def cpgm():
    return os.path.join(vlib.REPO, "c-interface", "cpgm.cpp")


class C20(Check):
    id = "C20"
    title = "reserved values and invalid arguments are rejected, never silently indexed"
    trace_module = "RejectTrace.tla"
    trace_cfg = "RejectTrace.cfg"
    assumptions = ["the required outcome of each attempt is decided by TLC from the logged raw arguments (RejectTrace.tla follows the Accept/Reject action pairs of Reject.tla)",
                   "for the multidimensional constructor the property names no exception type: any exception is accepted there",
                   "'container exactly as it was' is compared on the full private layout (levels, used_levels, index sizes) read through the friend accessor"]
    rule = ("the violation is placed at every position: reserved key as the last 1..3 elements of arrays of length 1..7, 33, 300 and 40000 (chunked build) for 10 key types x 7 static classes "
            "(PGMIndex, one-level, Compressed, Bucketing, EliasFano, Mapped from a range and from a raw file) + the C create functions; "
            "every base 2..255; an unsorted adjacent pair at each position of bulk loads of length 2..7 and at the ends / random positions of loads of 12..700 entries; "
            "the reserved mapped value at each position of bulk loads and at every step of 6 short histories; "
            "every (lo,hi) in 0..5 x 0..5 for range(); coordinates of fieldbits-3..fieldbits+2 bits at each position and dimension; epsilon -3..3; "
            "a non-increasing key at each position of a collinear run and of zigzag runs that break into several segments; valid controls are interleaved")

    @property
    def builds(self):
        return [{"name": "rec_reject", "sources": ["rec_reject.cpp", cpgm()]}]

    def models(self, tier):
        return [ModelRun("Reject.tla", "Reject.cfg", "Accept/Reject action pairs, 3 keys + reserved, sequences <= 3", workers=3, timeout=900,
                         constants={"Keys": "0..2", "Reserved": 3, "MaxLen": 3})]

    def recordings(self, tier, seed, bins, work):
        return [Recording("rec_reject", [], "rejections")]


class C18(Check):
    id = "C18"
    title = "the C interface gives the same guarantees as the C++ classes it wraps"
    trace_module = "StaticTrace.tla"
    trace_cfg = "StaticTrace.cfg"
    assumptions = ["the C interface is opaque: only results are observable (tier A); the wrapped classes' internals are bound by C01-C07 / C05-C06-C15",
                   "dynamic part: default configuration of the wrapped class (base 8, buffer of 585 entries); universes of 900-2000 keys so that merges happen",
                   "values equal to the reserved tombstone are outside the property's domain (the C insert function has no error channel)"]
    rule = ("static: every array of S(6,4) + structured generators for int32/int64/uint32/uint64 with epsilon in {1,2,7,64,4096} chosen at run time, "
            "queries as in C01/C02; dynamic: call sequences of create / create_empty / insert_or_assign / erase with find, lower_bound + iterator_next, begin, size "
            "observed every 97 calls, unsorted create must return NULL")

    @property
    def builds(self):
        return [{"name": "rec_capi", "sources": ["rec_capi.cpp", cpgm()]}]

    def pre_record(self, tier, seed, bins, work):
        import props_static
        ms = []
        for eps in (1, 2, 3):
            name = "PGM_capi_e%d" % eps
            ms.append(ModelRun("PGMIndex.tla", props_static.pgm_cfg(work, name, 8, 6, eps, 4, 8, "linear", 1, props_static.PGM_INV), name + " (EpsRec = 4 as in the wrapper)", workers=2, timeout=1500,
                               constants={"U": 8, "N": 6, "Eps": eps, "EpsRec": 4, "Sentinel": 8, "RouteMode": "linear"}))
        ms.append(ModelRun("MCDynamicPGM.tla", "MCDynamicPGM.b9.cfg", "dynamic container: all histories <=9 updates, 4 keys x 2 values", workers=3, timeout=900))
        self._late = ms
        return {}

    def models_late(self):
        return self._late

    def recordings(self, tier, seed, bins, work):
        return [Recording("rec_capi", ["--part", "static"], "C static index"),
                Recording("rec_capi", ["--part", "dynamic"], "C dynamic index", trace=("DynTrace.tla", "DynTrace.cfg"), timeout=900)]


class C19(Check):
    id = "C19"
    title = "index objects are independent values: copies/moves answer like the original"
    trace_module = "LifeTrace.tla"
    trace_cfg = "LifeTrace.cfg"
    builds = [{"name": "rec_lifecycle_asan", "sources": ["rec_lifecycle.cpp"], "compiler": "clang++",
               "extra_flags": ["-g", "-fsanitize=address", "-fno-omit-frame-pointer"]}]
    assumptions = ["'never refers to storage owned by the source' is observed through AddressSanitizer: objects live on the heap, the source is really destroyed, a read of freed storage aborts the recording (Crash line, rejected by the trace specification)",
                   "answers are compared as classes of full answer vectors on a fixed probe set (searches for ~90 keys; find/iteration/range; contains/box ranges)",
                   "moved-from objects are only destroyed or assigned to"]
    rule = ("model: every history of <= 5 operations over 3 object slots (Construct, CopyConstruct, CopyAssign, MoveConstruct, MoveAssign, Destroy, Mutate, Query); "
            "the member-wise copy variant must violate NoForeignStorage (sensitivity); traces: every TLC history of 4 operations (every 6th in quick) executed on "
            "CompressedPGMIndex and on one of PGMIndex / Bucketing / EliasFano / Multidimensional / Dynamic in rotation, plus seeded histories of 6..20 operations")

    def life_cfg(self, work, name, mode, maxops, invariants, props=(), constraint=None):
        p = os.path.join(work, name + ".cfg")
        with open(p, "w") as f:
            f.write("CONSTANTS Obj = {1,2,3}\n Vals = {1,2}\n CopyMode = \"%s\"\n Mutable = TRUE\n MaxOps = %d\nSPECIFICATION Spec\n" % (mode, maxops))
            if invariants:
                f.write("INVARIANTS %s\n" % " ".join(invariants))
            for pr in props:
                f.write("PROPERTY %s\n" % pr)
            if constraint:
                f.write("CONSTRAINT %s\n" % constraint)
            else:
                f.write("VIEW View\n")
            f.write("CHECK_DEADLOCK FALSE\n")
        return p

    def pre_record(self, tier, seed, bins, work):
        import tlcgen
        depth = 5 if tier == "quick" else 6
        self._late = [
            ModelRun("Lifecycle.tla", self.life_cfg(work, "Life", "retarget", depth, ["NoForeignStorage", "QueryNeverDangling"], ["Independent"]),
                     "all histories <= %d operations, 3 slots, re-targeting copies" % depth, workers=4, timeout=2400, constants={"Obj": 3, "MaxOps": depth}),
            ModelRun("Lifecycle.tla", self.life_cfg(work, "LifeDefect", "memberwise", 4, ["NoForeignStorage", "QueryNeverDangling"]),
                     "sensitivity: member-wise copy of an internal pointer violates NoForeignStorage", workers=1, timeout=300, expect="violation:*")]
        hs, r = tlcgen.gen_histories("Lifecycle.tla", self.life_cfg(work, "LifeGen", "retarget", 4, [], constraint="EmitHist"), seed, workers=4, timeout=900)
        step = 1 if tier == "thorough" else 6
        used = hs[seed % step::step]
        self._hist = os.path.join(work, "life_hist.txt")
        with open(self._hist, "w") as f:
            for h in used:
                f.write(json.dumps(h) + "\n")
        return {"tlc_generated_histories": len(hs), "tlc_histories_replayed": len(used)}

    def models_late(self):
        return self._late

    def recordings(self, tier, seed, bins, work):
        env = {"ASAN_OPTIONS": "abort_on_error=1:detect_leaks=0"}
        return [Recording("rec_lifecycle_asan", ["--shards", "6"], "seeded histories (ASan)", env=env, timeout=900),
                Recording("rec_lifecycle_asan", ["--shards", "6", "--hist", self._hist], "TLC-generated histories (ASan)", env=env, timeout=1500)]


class C16(Check):
    id = "C16"
    title = "concurrent read-only queries on one index are race-free and consistent"
    trace_module = "ReadersTrace.tla"
    trace_cfg = "ReadersTrace.cfg"
    builds = [{"name": "rec_readers_tsan", "sources": ["rec_readers.cpp"], "compiler": "clang++", "openmp": False,
               "extra_flags": ["-g", "-fsanitize=thread"]}]
    assumptions = ["TLC explores every interleaving of the MODEL's reader steps; for the code the schedule space is sampled (2..16 threads, 400 queries each, started together)",
                   "a data race in the sense of the C++ memory model is observed through ThreadSanitizer's happens-before analysis (clang 14): it flags a race on any schedule in which the two conflicting accesses are unordered; a report aborts the recorder and the recording is rejected",
                   "the recorder is built without OpenMP (construction is single-threaded there), so libgomp cannot produce false reports"]
    rule = ("model: 2-3 readers x 1-2 queries each over a two-level index, all interleavings of Begin/RouteStep/Finish, with the shared-memo variant as sensitivity check; "
            "traces: PGMIndex (recursive and one-level), Compressed, Bucketing, EliasFano, Mapped, Multidimensional (contains + box ranges), Dynamic (find, count, lower_bound + "
            "iteration, range) built once each and queried by 2, 5 and 16 threads (7 thread counts in thorough)")

    def readers_cfg(self, work, name, readers, q, memo, invariants, props=()):
        p = os.path.join(work, name + ".cfg")
        with open(p, "w") as f:
            f.write("CONSTANTS Reader = {%s}\n Keys = {1,3,4,6}\n QueriesPerReader = %d\n SharedMemo = %s\nSPECIFICATION Spec\n" % (
                ",".join(str(i) for i in range(1, readers + 1)), q, "TRUE" if memo else "FALSE"))
            if invariants:
                f.write("INVARIANTS %s\n" % " ".join(invariants))
            for pr in props:
                f.write("PROPERTY %s\n" % pr)
            f.write("CHECK_DEADLOCK FALSE\n")
        return p

    def pre_record(self, tier, seed, bins, work):
        ms = [ModelRun("Readers.tla", self.readers_cfg(work, "R2x2", 2, 2, False, ["ResultsSequential"], ["NoSharedWrites"]), "2 readers x 2 queries, all interleavings", workers=3, timeout=900,
                       constants={"Reader": 2, "QueriesPerReader": 2}),
              ModelRun("Readers.tla", self.readers_cfg(work, "R3x1", 3, 1, False, ["ResultsSequential"], ["NoSharedWrites"]), "3 readers x 1 query, all interleavings", workers=3, timeout=900,
                       constants={"Reader": 3, "QueriesPerReader": 1}),
              ModelRun("Readers.tla", self.readers_cfg(work, "Rmemo", 2, 1, True, ["ResultsSequential"]), "sensitivity: a shared memo cell breaks sequential results", workers=1, timeout=300, expect="violation:*"),
              ModelRun("Readers.tla", self.readers_cfg(work, "Rmemo2", 2, 1, True, [], ["NoSharedWrites"]), "sensitivity: a shared memo cell breaks the frame condition", workers=1, timeout=300, expect="violation:*"),
              ModelRun("Readers.tla", self.readers_cfg(work, "Rwit", 2, 1, False, ["WitnessOverlap"]), "witness: two readers inside a query at the same time", workers=1, timeout=300, expect="violation:*")]
        if tier == "thorough":
            ms.append(ModelRun("Readers.tla", self.readers_cfg(work, "R3x2", 3, 2, False, ["ResultsSequential"], ["NoSharedWrites"]), "3 readers x 2 queries, all interleavings", workers=8, timeout=3000, heap="12g",
                               constants={"Reader": 3, "QueriesPerReader": 2}))
        self._late = ms
        return {}

    def models_late(self):
        return self._late

    def recordings(self, tier, seed, bins, work):
        scr = os.path.join(work, "scratchfiles")
        os.makedirs(scr, exist_ok=True)
        return [Recording("rec_readers_tsan", ["--scratch", scr], "readers (TSan)", env={"TSAN_OPTIONS": "halt_on_error=1:abort_on_error=0:exitcode=66"}, timeout=1200)]


ASAN = ["-g", "-fsanitize=address", "-fno-omit-frame-pointer"]
ASAN_ENV = {"ASAN_OPTIONS": "abort_on_error=1:detect_leaks=0"}


class C17(Check):
    id = "C17"
    title = "no query or update on any class touches memory outside its own structures"
    trace_module = "BoundsTrace.tla"
    trace_cfg = "BoundsTrace.cfg"
    assumptions = ["an access outside live allocations is observed through AddressSanitizer (clang 14): it aborts the recorder, the recording ends with a Crash line that the trace specification does not accept",
                   "TLC decides in-boundness of the modelled unchecked-access sites on all inputs of the small universes (InBounds invariants) and of the logged indices of every recorded query",
                   "accesses that stay inside a live allocation but outside the intended sub-object are not visible to ASan; inputs outside the stated domains (e.g. the reserved key as a query) are not claimed"]
    rule = ("models: InBounds-type invariants of PGMIndex (sentinel-terminated scans, next(it)), Variants (bucket slice, Elias-Fano select arguments, window search), "
            "Multidim (scan never reads data[end], jump landing), Mapped (gallop), DynamicPGM (branch-free lower bound) on every input of their small universes; "
            "traces: the quick corpora of all recorders (n = 1,2,3, empty dynamic containers, queries at lowest(), first-1, last+1, max-1, iterators driven to end(), "
            "boxes reaching the last stored code, every object-lifetime history, every rejected construction and the accepted controls around it, the iterator's tournament tree) executed by ASan-instrumented binaries")

    @property
    def builds(self):
        b = [{"name": "asan_static_%d" % p, "sources": ["rec_static.cpp"], "compiler": "clang++", "extra_flags": ASAN + ["-DPART=%d" % p]} for p in range(3)]
        b += [{"name": "asan_variants_%d" % p, "sources": ["rec_variants.cpp"], "compiler": "clang++", "extra_flags": ASAN + ["-DPART=%d" % p]} for p in range(3)]
        b += [{"name": "asan_dynamic", "sources": ["rec_dynamic.cpp"], "compiler": "clang++", "extra_flags": ASAN},
              {"name": "asan_mapped", "sources": ["rec_mapped.cpp"], "compiler": "clang++", "extra_flags": ASAN},
              {"name": "asan_md", "sources": ["rec_md.cpp"], "compiler": "clang++", "extra_flags": ASAN},
              {"name": "asan_capi", "sources": ["rec_capi.cpp", cpgm()], "compiler": "clang++", "extra_flags": ASAN},
              {"name": "rec_lifecycle_asan", "sources": ["rec_lifecycle.cpp"], "compiler": "clang++", "extra_flags": ASAN},
              {"name": "asan_reject", "sources": ["rec_reject.cpp", cpgm()], "compiler": "clang++", "extra_flags": ASAN},
              {"name": "asan_loser", "sources": ["rec_loser.cpp"], "compiler": "clang++", "extra_flags": ASAN}]
        return b

    def pre_record(self, tier, seed, bins, work):
        import props_static, props_variants, props_md, props_mapped
        ms = []
        for eps, er, route in ((1, 1, "linear"), (1, 1, "binary_window"), (1, 0, "binary_one_level"), (2, 2, "linear")):
            name = "PGM_inb_e%d_r%d_%s" % (eps, er, route)
            ms.append(ModelRun("PGMIndex.tla", props_static.pgm_cfg(work, name, 8, 6, eps, er, 8, route, 1, ["InBounds", "SentinelOK", "RoutedRight"]), name, workers=2, timeout=1500,
                               constants={"U": 8, "N": 6, "Eps": eps, "EpsRec": er, "Sentinel": 8, "RouteMode": route}))
        for mode, T in (("bucketing", 3), ("bucketing", 4), ("eliasfano", 2), ("routing", 2)):
            name = "Var_inb_%s_%d" % (mode, T)
            ms.append(ModelRun("Variants.tla", props_variants.var_cfg(work, name, mode, 3, T, 1, "binary" if mode == "routing" else "linear", ["InBounds", "TableOK"]), name, workers=2, timeout=900,
                               constants={"Mode": mode, "KeyBits": 3, "T": T}))
        ms.append(ModelRun("Multidim.tla", props_md.md_cfg(work, "Md_inb", 2, 3, 1, "lower_bound", ["InBounds"]), "Multidim InBounds", workers=3, timeout=1500,
                           constants={"B": 2, "MaxPoints": 3, "MissThreshold": 1}))
        ms.append(ModelRun("Mapped.tla", props_mapped.mapped_cfg(work, "Mapped_inb", "queries", 3, 10, 1, 0, True, ["GallopInBounds"]), "Mapped gallop InBounds", workers=2, timeout=900,
                           constants={"U": 3, "N": 10, "Eps": 1}))
        ms.append(ModelRun("MCDynamicPGM.tla", "MCDynamicPGM.k5.cfg", "DynamicPGM: branch-free lower bound inside every admissible range (RangeIrrelevant)", workers=3, timeout=900))
        self._late = ms
        return {}

    def models_late(self):
        return self._late

    def recordings(self, tier, seed, bins, work):
        scr = os.path.join(work, "scratchfiles")
        os.makedirs(scr, exist_ok=True)
        r = [Recording("asan_static_%d" % p, ["--shards", "3"], "static %d (ASan)" % p, env=ASAN_ENV, timeout=1500) for p in range(3)]
        r += [Recording("asan_variants_%d" % p, ["--shards", "3"], "variants %d (ASan)" % p, env=ASAN_ENV, timeout=1500) for p in range(3)]
        r += [Recording("asan_dynamic", [], "dynamic (ASan)", env=ASAN_ENV, timeout=1500),
              Recording("asan_mapped", ["--scratch", scr, "--shards", "3"], "mapped (ASan)", env=ASAN_ENV, timeout=1500),
              Recording("asan_md", ["--shards", "3"], "multidimensional (ASan)", env=ASAN_ENV, timeout=1500),
              Recording("asan_capi", ["--part", "static"], "C static (ASan)", env=ASAN_ENV, timeout=1500),
              Recording("asan_capi", ["--part", "dynamic"], "C dynamic (ASan)", env=ASAN_ENV, timeout=1500),
              Recording("rec_lifecycle_asan", ["--shards", "2"], "lifecycle (ASan)", env=ASAN_ENV, timeout=1500),
              Recording("asan_reject", [], "rejected and accepted constructions (ASan)", env=ASAN_ENV, timeout=1500),
              Recording("asan_loser", ["--shards", "2"], "loser tree (ASan)", env=ASAN_ENV, timeout=1500)]
        return r


CHECKS = [C16, C17, C18, C19, C20]
