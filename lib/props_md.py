"""C13 C14: MultidimensionalPGMIndex against Multidim.tla / MdTrace.tla."""
import os

from runner import *  # noqa

MD_BUILD = {"name": "rec_md", "sources": ["rec_md.cpp"]}


def md_cfg(work, name, B, maxpts, thr, land, invariants, props=(), spec="Spec", constraint=None):
    p = os.path.join(work, name + ".cfg")
    with open(p, "w") as f:
        f.write("CONSTANTS B = %d\n MaxPoints = %d\n MissThreshold = %d\n LandOn = \"%s\"\nSPECIFICATION %s\n" % (B, maxpts, thr, land, spec))
        if invariants:
            f.write("INVARIANTS %s\n" % " ".join(invariants))
        for pr in props:
            f.write("PROPERTY %s\n" % pr)
        if constraint:
            f.write("CONSTRAINT %s\n" % constraint)
        f.write("CHECK_DEADLOCK FALSE\n")
    return p


MD_INV = ["C13Prefix", "C13Complete", "InBounds", "C14"]


class MdCheck(Check):
    trace_module = "MdTrace.tla"
    trace_cfg = "MdTrace.cfg"
    builds = [MD_BUILD]
    assumptions = ["the embedded PGMIndex is abstract in the model (search + lower_bound = global lower bound, which is C02)",
                   "the Morton code is defined in the specification by explicit bit interleaving (first coordinate least significant); the codes stored by the container are compared with it at tier B",
                   "model: 2 dimensions, 2-3 bits per coordinate, miss threshold 0..2 (the code uses 64, reached only by recorded executions on dense grids)",
                   "requires a CPU with BMI2 (the class is not compiled otherwise)"]
    rule = ("model: every multiset of 1..MaxPoints codes of the 4x4 (8x8) grid, every box, every step of the scan; traces: dense 32x32 / 10^3 / 5^4 grids with 50-100% "
            "occupancy and duplicates, random, clustered and diagonal point sets, D in {2,3,4}, uint32/uint64, Eps in {1,4,16,64}; boxes: single cells (stored and not), "
            "one-cell-thick slabs, two-cell slabs, full space, corners on stored points, boxes reaching the last code, random; contains() for stored points and ~60 random "
            "cells per execution")

    def pre_record(self, tier, seed, bins, work):
        ms = []
        mp = 3 if tier == "quick" else 4
        for thr in (0, 1, 2):
            name = "Md_B2_T%d" % thr
            ms.append(ModelRun("Multidim.tla", md_cfg(work, name, 2, mp, thr, "lower_bound", MD_INV), name, workers=3, timeout=3000,
                               constants={"B": 2, "MaxPoints": mp, "MissThreshold": thr}))
        if tier == "thorough":
            ms.append(ModelRun("Multidim.tla", md_cfg(work, "Md_B3", 3, 2, 0, "lower_bound", MD_INV), "Md_B3 (8x8 grid, 2 points)", workers=4, timeout=3000, heap="8g",
                               constants={"B": 3, "MaxPoints": 2, "MissThreshold": 0}, exhaustive=False))
        ms.append(ModelRun("Multidim.tla", md_cfg(work, "Md_bigmin", 2, 1, 0, "lower_bound", ["BigMinOK"], constraint="OnlyGrow"), "bigmin = its oracle for every (x, zmin, zmax) of the 4x4 grid",
                           workers=1, timeout=900, constants={"B": 2}))
        ms.append(ModelRun("Multidim.tla", md_cfg(work, "Md_live", 2, 2, 1, "lower_bound", [], ["Terminates"], spec="FairSpec"), "liveness: every range query reaches end()",
                           workers=2, timeout=1500, constants={"B": 2, "MaxPoints": 2, "MissThreshold": 1}))
        ms.append(ModelRun("Multidim.tla", md_cfg(work, "Md_defect", 2, 3, 0, "upper_bound", MD_INV), "sensitivity: resuming after codes equal to bigmin violates C13",
                           workers=2, timeout=900, expect="violation:*"))
        for w in ("WitnessJump", "WitnessJumpOntoStored", "WitnessDuplicate"):
            ms.append(ModelRun("Multidim.tla", md_cfg(work, "W_" + w, 2, 3, 0, "lower_bound", [w]), "witness: " + w, workers=1, timeout=600, expect="violation:*"))
        self._late = ms
        return {}

    def models_late(self):
        return self._late

    def recordings(self, tier, seed, bins, work):
        return [Recording("rec_md", ["--shards", "10"], "multidimensional", timeout=900)]


class C13(MdCheck):
    id = "C13"
    title = "MultidimensionalPGMIndex::range enumerates exactly the points inside the box"


class C14(MdCheck):
    id = "C14"
    title = "MultidimensionalPGMIndex::contains is exact set membership"


CHECKS = [C13, C14]
