"""Generic engine of a check: TLC on the model configurations, record the implementation, TLC on the traces."""
import concurrent.futures as cf
import json
import os
import re
import subprocess
import sys
import time

from vlib import *  # noqa


class ModelRun:
    """One TLC run on a model configuration. expect: 'ok' (no error) or 'violation:<name>' (a reachability witness
    that TLC must violate, else the configuration is reported as not having exercised the guarded invariant)."""

    def __init__(self, module, cfg, label, workers=4, timeout=600, expect="ok", heap="4g", simulate=None, coverage=False,
                 exhaustive=True, constants=None):
        self.module, self.cfg, self.label = module, cfg, label
        self.workers, self.timeout, self.expect, self.heap = workers, timeout, expect, heap
        self.simulate, self.coverage, self.exhaustive = simulate, coverage, exhaustive
        self.constants = constants or {}
        self.result = None

    def run(self, seed):
        extra = []
        if self.coverage:
            extra += ["-coverage", "1"]
        if self.simulate:
            extra += ["-seed", str(seed)]
        self.result = run_tlc(self.module, self.cfg, workers=self.workers, timeout=self.timeout, heap=self.heap,
                              extra=extra, simulate=self.simulate)
        return self


class ApalacheRun(ModelRun):
    """An inductive-style check discharged by Apalache (SMT) for unbounded integers: Init => Inv at length 0."""

    def __init__(self, module, inv, label, timeout=300, expect="ok"):
        ModelRun.__init__(self, module, "(apalache --length=0 --inv=%s)" % inv, label, timeout=timeout, expect=expect)
        self.inv = inv

    def run(self, seed):
        import shutil as _sh
        work = scratch("apalache")
        t0 = time.time()
        try:
            _sh.copy(os.path.join(SPEC, "apalache", self.module), work)
            p = subprocess.run(["apalache-mc", "check", "--length=0", "--inv=" + self.inv, self.module], capture_output=True, text=True,
                               timeout=self.timeout, cwd=work)
            out, rc, timed_out = p.stdout + p.stderr, p.returncode, False
        except subprocess.TimeoutExpired:
            out, rc, timed_out = "timeout", -9, True
        finally:
            rmtree(work)
        ok = rc == 0 and "EXITCODE: OK" in out
        self.result = {"rc": 0 if ok else (rc or 1), "out": out if not ok else "Model checking completed. No error has been found.\n1 states generated, 1 distinct states found, 0 states left on queue.",
                       "wall_s": time.time() - t0, "timed_out": timed_out, "states": 1, "distinct": 1, "queue": 0, "depth": 0, "ok": ok,
                       "violated": self.inv if (not ok and "Checker has found an error" in out) else None, "postcondition_false": False}
        return self


class Recording:
    """A recorder invocation: binary name (as built), argument list (outdir, seed, tier appended by the engine)."""

    def __init__(self, binary, args=(), label=None, timeout=600, env=None, trace=None):
        self.binary, self.args, self.label, self.timeout, self.env = binary, list(args), label or binary, timeout, env
        self.trace = trace      # (trace module, cfg) when it differs from the check's


class Check:
    id = None
    title = ""
    trace_module = None
    trace_cfg = None
    reported_props = None          # TRACE-VIOLATION tags that count for this check (default: [id])
    builds = []                    # list of build specs (dict name/sources/...)
    assumptions = []
    rule = ""

    def models(self, tier):
        return []

    def recordings(self, tier, seed, bins, workdir):
        return []

    def pre_record(self, tier, seed, bins, workdir):
        """hook: e.g. let TLC generate behaviours that a recording replays; returns extra info for the evidence"""
        return {}

    def models_late(self):
        """model runs whose configuration files are written by pre_record (e.g. reachability witnesses)"""
        return []

    def context_of(self, reset_line, viol_line, viol):
        """what a rejected line is matched against known_findings.json with"""
        ctx = {"what": viol["what"]}
        try:
            r = json.loads(reset_line)
            ctx["tags"] = r.get("tags", [])
            for k in ("cls", "K", "V", "hist", "eps", "epsrec", "route", "variant"):
                if k in r:
                    ctx[k] = r[k]
        except Exception:
            pass
        return ctx


def _record(bins, rec, outdir, seed, tier, only=None):
    cmd = [bins[rec.binary]] + rec.args + ["--out", outdir, "--seed", str(seed), "--tier", tier]
    if only is not None:
        cmd += ["--only", str(only)]
    env = dict(os.environ)
    env.setdefault("OMP_NUM_THREADS", "4")
    if rec.env:
        env.update(rec.env)
    try:
        p = subprocess.run(cmd, capture_output=True, text=True, timeout=rec.timeout, env=env)
    except subprocess.TimeoutExpired:
        return {"cmd": cmd, "rc": -9, "stderr": "timeout after %ss" % rec.timeout}
    return {"cmd": cmd, "rc": p.returncode, "stderr": p.stderr[-3000:]}


def run_check(check, tier, seed, replay=None):
    t0 = time.time()
    props = check.reported_props or [check.id]
    log("== check %s (%s) tier=%s seed=%s" % (check.id, check.title, tier, seed))
    work = scratch("chk_" + check.id)
    status = 0
    try:
        # 1. models start in the background while the recorders are compiled and run
        models = check.models(tier)
        pool = cf.ThreadPoolExecutor(max_workers=8)
        mfuts = [pool.submit(m.run, seed) for m in models]

        # 2. build + record
        bins = build_many(check.builds) if check.builds else {}
        extra_info = check.pre_record(tier, seed, bins, work) or {}
        late = check.models_late()
        mfuts += [pool.submit(m.run, seed) for m in late]
        models = models + late
        rec_results = []
        traces = []
        trace_origin = {}
        recs = check.recordings(tier, seed, bins, work)
        for i, rec in enumerate(recs):
            outdir = os.path.join(work, "rec%d" % i)
            os.makedirs(outdir, exist_ok=True)
            rr = _record(bins, rec, outdir, seed, tier)
            rr["label"] = rec.label
            rr["outdir"] = outdir
            rr["rec"] = rec
            rec_results.append(rr)
            if rr["rc"] not in (0,):
                log("  recorder %s exited with %s: %s" % (rec.label, rr["rc"], rr["stderr"][-500:]))
                # The recorder did not finish (sanitizer exit, signal, or it hung and was killed): the trace it was writing
                # gets a Crash line, for which no trace specification has an action, so the execution is rejected by TLC.
                files = sorted(glob.glob(os.path.join(outdir, "*.ndjson")), key=os.path.getmtime)
                if files:
                    with open(files[-1], "rb") as fh:
                        tail = fh.read()[-1:]
                    with open(files[-1], "a") as fh:
                        fh.write(("" if tail in (b"\n", b"") else "\n") + json.dumps({"e": "Crash", "why": "recorder exit status %s" % rr["rc"]}) + "\n")
                    rr["crash_marked"] = True
            for tp in sorted(glob.glob(os.path.join(outdir, "*.ndjson"))):
                traces.append(tp)
                trace_origin[tp] = rec
        log("  recorded %d trace files (%.0fs)" % (len(traces), time.time() - t0))

        # 3. validate
        vres = []
        groups = {}
        for tp in traces:
            groups.setdefault(trace_origin[tp].trace or (check.trace_module, check.trace_cfg), []).append(tp)
        for (tmod, tcfg), tps in groups.items():
            vres += validate_traces(tmod, tcfg, tps, timeout=3600 if tier == "thorough" else 900)
        log("  validated traces (%.0fs)" % (time.time() - t0))

        # 4. collect the model results
        for f in mfuts:
            f.result()
        pool.shutdown()
        machinery = []
        states = transitions = 0
        model_report = []
        not_exercised = []
        for m in models:
            r = m.result
            states += r.get("distinct", 0)
            transitions += r.get("states", 0)
            entry = {"label": m.label, "module": m.module, "cfg": m.cfg, "distinct_states": r.get("distinct", 0),
                     "states_generated": r.get("states", 0), "depth": r.get("depth", 0), "wall_s": round(r["wall_s"], 1),
                     "mode": "simulate " + m.simulate if m.simulate else "bfs", "expect": m.expect}
            if m.constants:
                entry["constants"] = m.constants
            if m.coverage:
                cov = parse_coverage(r["out"])
                entry["action_coverage"] = {k: v[1] for k, v in cov.items()}
                not_exercised += [k for k, v in cov.items() if v[1] == 0]
            if m.expect == "ok":
                if r["timed_out"]:
                    entry["completed"] = False
                    if m.exhaustive:
                        machinery.append("model %s timed out after %ss" % (m.label, m.timeout))
                elif not r["ok"]:
                    entry["completed"] = False
                    if r["violated"]:
                        machinery.append("MODEL VIOLATION: %s violates %s in %s\n%s" % (m.label, r["violated"], m.cfg, tlc_error_text(r, 60)))
                    else:
                        machinery.append("model %s failed (rc=%s):\n%s" % (m.label, r["rc"], tlc_error_text(r)))
                else:
                    entry["completed"] = True
            else:
                want = m.expect.split(":", 1)[1]
                reached = r["violated"] is not None and (want == "*" or r["violated"] == want)
                entry["witness_reached"] = reached
                if not reached:
                    if r["timed_out"] or r["rc"] not in (0, 12, 13):
                        machinery.append("witness run %s failed (rc=%s):\n%s" % (m.label, r["rc"], tlc_error_text(r)))
                    else:
                        not_exercised.append(m.label)
            model_report.append(entry)

        # 5. trace verdicts
        violations, known_hits, drifts = [], [], []
        executions = 0
        lines_total = 0
        counts = {}
        samples = []
        for v in vres:
            if v["machinery_error"]:
                machinery.append(v["machinery_error"])
                continue
            lines = read_lines(v["path"])
            lines_total += v["lines"]
            for k, c in v["counts"].items():
                counts[k] = counts.get(k, 0) + c
            executions += sum(1 for ln in lines if ln.startswith('{"e":"End"'))
            if len(samples) < 3 and len(lines) > 3:
                samples.append([json.loads(x) if len(x) < 600 else x[:600] + "..." for x in lines[1:4]])
            if v["truncated_at"] is not None:
                ln = v["truncated_at"]
                what = "trace_not_consumed"
                try:
                    what = "unmatched_event_" + json.loads(lines[ln - 1]).get("e", "?") if ln <= len(lines) else "trace_truncated"
                except Exception:
                    pass
                v["violations"].append({"prop": props[0], "line": min(ln, len(lines)), "x": -1, "what": what})
            for viol in v["violations"]:
                if viol["prop"] not in props:
                    continue
                s, e = execution_of(lines, viol["line"])
                ctx = check.context_of(lines[s], lines[viol["line"] - 1] if viol["line"] <= len(lines) else "", viol)
                ctx["file"] = os.path.basename(v["path"])
                k = match_known(check.id, ctx)
                item = {"viol": viol, "ctx": ctx, "path": v["path"], "start": s, "end": e, "lines": lines}
                (known_hits if k else violations).append((item, k))
            drifts += [d for d in v["drifts"] if True]
        if counts.get("hook_silent", 0) > 0:
            machinery.append("an instrumentation hook logged nothing in %d place(s) where it must fire (hook removed or moved by the change under test?): "
                             "the properties that depend on it were not evaluated there" % counts["hook_silent"])
        for rr in rec_results:
            if rr["rc"] != 0 and not rr.get("crash_marked"):
                machinery.append("recorder %s failed rc=%s: %s" % (rr["label"], rr["rc"], rr["stderr"][-800:]))

        # 6. report
        printed = set()
        for item, k in known_hits:
            key = k.get("id", k.get("what", ""))
            if key in printed:
                continue
            printed.add(key)
            log("KNOWN-FINDING: property=%s %s" % (check.id, k.get("what", "")))
        reported = 0
        seen_sig = set()
        for item, _ in violations:
            sig = (item["ctx"].get("what"), tuple(item["ctx"].get("tags", [])), item["ctx"].get("cls"))
            if sig in seen_sig and reported >= 3:
                continue
            seen_sig.add(sig)
            if reported >= 8:
                break
            lines = item["lines"]
            cfg_line = lines[0]
            body = [cfg_line] + lines[item["start"]:item["end"] + 1]
            name = "%s_%s_x%s_l%d" % (check.id, item["ctx"].get("what", "v"), item["viol"]["x"], item["viol"]["line"])
            name = re.sub(r"[^A-Za-z0-9_]+", "_", name)[:100]
            path = save_replay(check.id, name, body, {"property": check.id, "what": item["ctx"].get("what"),
                                                      "seed": seed, "tier": tier, "x": item["viol"]["x"],
                                                      "trace_file": os.path.basename(item["path"]), "ctx": item["ctx"],
                                                      "recorder": trace_origin[item["path"]].binary,
                                                      "recorder_args": [a for a in trace_origin[item["path"]].args],
                                                      "rerecordable": not any(work in a for a in trace_origin[item["path"]].args)})
            log("VIOLATION property=%s replay=%s" % (check.id, path))
            log("  what=%s exec=%s line=%d ctx=%s" % (item["ctx"].get("what"), item["viol"]["x"], item["viol"]["line"],
                                                     json.dumps({k: v for k, v in item["ctx"].items() if k != "what"})))
            reported += 1
        for d in drifts[:5]:
            log("MODEL-DRIFT property=%s line=%s exec=%s what=%s (diagnostic only)" % (check.id, d["line"], d["x"], d["what"]))
        for m in machinery:
            log("MACHINERY-ERROR: " + m)
        for ne in sorted(set(not_exercised)):
            log("NOT-EXERCISED: " + ne)

        if violations:
            status = 1
        elif machinery:
            status = 2

        cov = {"states": states, "transitions": transitions, "traces_validated_against_impl": executions,
               "samples": samples or [["(no trace recorded)"]],
               "exhaustive": all(e.get("completed", True) for e in model_report if e["expect"] == "ok" and e["mode"] == "bfs") and bool(models),
               "exhaustive_scope": "the model configurations listed under `models` with mode bfs and completed true were enumerated completely by TLC; "
                                   "the recorded executions of the implementation are a sample (see rule)",
               "models": model_report, "trace_lines_checked": lines_total, "trace_files": len(traces),
               "trace_event_counts": counts, "model_conformant": len(drifts) == 0, "model_drifts": len(drifts),
               "not_exercised": sorted(set(not_exercised)), "known_findings_hit": sorted(printed),
               "rule": check.rule, "machinery_errors": len(machinery)}
        cov.update(extra_info)
        write_evidence(check.id, tier, seed, cov, time.time() - t0, len(violations), check.assumptions)
        log("== %s: %s  (models: %d distinct states; traces: %d executions, %d lines; %.0fs)" % (
            check.id, {0: "PASS", 1: "VIOLATION", 2: "MACHINERY-ERROR"}[status], states, executions, lines_total, time.time() - t0))
    finally:
        rmtree(work)
    return status


def run_replay(check, path):
    """Re-examine a saved violation: (1) TLC on the stored lines; (2) when the recording can be regenerated, re-run the
    recorder built from /repo's current tree on that execution only and validate it again."""
    lines = read_lines(path)
    meta = json.loads(lines[0])
    work = scratch("replay_" + check.id)
    status = 0
    try:
        stored = os.path.join(work, "stored.ndjson")
        with open(stored, "w") as f:
            f.write("\n".join(lines[1:]) + "\n")
        v = validate_trace(check.trace_module, check.trace_cfg, stored)
        log("stored trace: %d lines, violations: %s%s" % (len(lines) - 1, [(x["prop"], x["what"], x["line"]) for x in v["violations"]],
                                                         " (not consumed past line %s)" % v["truncated_at"] if v["truncated_at"] else ""))
        log("last lines of the stored execution:")
        for ln in lines[-3:]:
            log("   " + ln[:1500])
        if meta.get("rerecordable") and meta.get("x", -1) >= 0:
            bins = build_many(check.builds)
            outdir = os.path.join(work, "rerec")
            os.makedirs(outdir)
            rec = Recording(meta["recorder"], meta.get("recorder_args", []))
            rr = _record(bins, rec, outdir, meta["seed"], meta["tier"], only=meta["x"])
            again = []
            for tp in sorted(glob.glob(os.path.join(outdir, "*.ndjson"))):
                vv = validate_trace(check.trace_module, check.trace_cfg, tp)
                again += [x for x in vv["violations"] if x["prop"] in (check.reported_props or [check.id])]
                if vv["truncated_at"]:
                    again.append({"prop": check.id, "what": "trace_not_consumed", "line": vv["truncated_at"]})
            if again:
                log("re-recorded on the current tree: REPRODUCED %s" % [(x["prop"], x["what"]) for x in again][:5])
                log("VIOLATION property=%s replay=%s" % (check.id, path))
                status = 1
            else:
                log("re-recorded on the current tree: not reproduced (the current tree passes on this execution)")
        else:
            status = 1 if (v["violations"] or v["truncated_at"]) else 0
    finally:
        rmtree(work)
    return status
