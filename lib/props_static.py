"""C01 C02 C03 C04 C07: PGMIndex and the segmentation builder against PLA / Segmentation / PGMIndex (.tla) and StaticTrace.tla."""
import os

from runner import *  # noqa

STATIC_BUILDS = [{"name": "rec_static_%d" % p, "sources": ["rec_static.cpp"], "extra_flags": ["-DPART=%d" % p]} for p in range(3)]


def pgm_cfg(work, name, U, N, eps, epsrec, sentinel, route, chunks, invariants, minbuild=1, maxstep=1000):
    p = os.path.join(work, name + ".cfg")
    with open(p, "w") as f:
        f.write("""CONSTANTS U = %d
 N = %d
 Eps = %d
 EpsRec = %d
 Sentinel = %d
 RouteMode = "%s"
 NChunks = %d
 MinBuildLen = %d
 MaxStep = %d
SPECIFICATION Spec
INVARIANTS %s
CHECK_DEADLOCK FALSE
""" % (U, N, eps, epsrec, sentinel, route, chunks, minbuild, maxstep, " ".join(invariants)))
    return p


def seg_cfg(work, name, U, N, eps, chunks, usedp, invariants):
    p = os.path.join(work, name + ".cfg")
    with open(p, "w") as f:
        f.write("""CONSTANTS U = %d
 N = %d
 Eps = %d
 MaxChunks = %d
 UseDP = %s
SPECIFICATION Spec
INVARIANTS %s
CHECK_DEADLOCK FALSE
""" % (U, N, eps, chunks, "TRUE" if usedp else "FALSE", " ".join(invariants)))
    return p


def pla_cfg(work, name, X, Y, eps, maxpts, invariants, props=()):
    p = os.path.join(work, name + ".cfg")
    with open(p, "w") as f:
        f.write("CONSTANTS XMax = %d\n YMax = %d\n Eps = %d\n MaxPts = %d\nSPECIFICATION Spec\n" % (X, Y, eps, maxpts))
        if invariants:
            f.write("INVARIANTS %s\n" % " ".join(invariants))
        for pr in props:
            f.write("PROPERTY %s\n" % pr)
        f.write("CHECK_DEADLOCK FALSE\n")
    return p


PGM_INV = ["Shape", "C01", "C02", "RoutedRight", "InBounds", "C07a", "C07b", "CountBoundIdx", "SingleRoot", "SentinelOK"]


class StaticCheck(Check):
    trace_module = "StaticTrace.tla"
    trace_cfg = "StaticTrace.cfg"
    builds = STATIC_BUILDS
    assumptions = [
        "TLC integers are 32 bit: arithmetic properties (eps-distance, maximality, tier B) are checked on executions whose keys span < 12000 (offset normalisation); wider executions are relabelled by rank and checked for the order-only properties",
        "float/double slopes are modelled as bounded nondeterminism (exact value, or one less when the exact product is an integer and the slope is not exactly representable)",
        "the model chunks any array with >= 1 element per chunk; the library only chunks n >= 2^15 (real-path executions are recorded with the OpenMP thread count of the environment)"]
    rule = ("model: every sorted array with duplicates of the stated universe S(U,N), every query -1..Sentinel-1, every rounding choice; "
            "traces: every array of S(8,5)/S(6,4) at three placements in the key type, structured generators (duplicate runs around 2eps+2, "
            "saw-tooth tight on the band, collinear stretches, steep/flat steps, chunk seams, convex / concave curves and curve + far key + dense run with hulls of "
            "hundreds of vertices) for 35 template configurations over 10 key types, "
            "forced chunk counts 2..20 and the library's own chunked path (n >= 2^15); queries: sampled present keys, key+-1, gap midpoints, "
            "first-1, first, 0, last, last+1, lowest, max-1, powers of two away; repeated queries and boundary queries as the first query of an unqueried copy")

    def pgm_models(self, tier, work):
        ms = []
        grid = [(1, 0, "binary_one_level", 1), (1, 1, "linear", 1), (2, 1, "linear", 1), (1, 1, "binary_window", 1), (1, 1, "linear", 2), (2, 2, "linear", 3)]
        U, N = (8, 6) if tier == "quick" else (10, 7)
        for eps, er, route, c in grid:
            for sent in ([U] if tier == "quick" and (eps, er) != (1, 1) else [U, U + 5]):
                name = "PGM_e%d_r%d_%s_c%d_s%d" % (eps, er, route, c, sent)
                ms.append(ModelRun("PGMIndex.tla", pgm_cfg(work, name, U, N, eps, er, sent, route, c, PGM_INV), name, workers=2, timeout=2400,
                                   constants={"U": U, "N": N, "Eps": eps, "EpsRec": er, "Sentinel": sent, "RouteMode": route, "NChunks": c}))
        if tier == "thorough":
            for eps, er, route, c in [(1, 1, "linear", 1), (2, 1, "linear", 1), (1, 0, "binary_one_level", 1)]:
                name = "PGMbig_e%d_r%d_%s" % (eps, er, route)
                ms.append(ModelRun("PGMIndex.tla", pgm_cfg(work, name, 12, 8, eps, er, 12, route, c, PGM_INV), name, workers=4, timeout=3000, heap="8g",
                                   constants={"U": 12, "N": 8, "Eps": eps, "EpsRec": er, "Sentinel": 12, "RouteMode": route, "NChunks": c}))
        # simulation: long random arrays (24..30 keys over 0..59) so that the index gets three levels
        nsim = 400 if tier == "quick" else 6000
        for er, route in ((1, "linear"), (1, "binary_window")):
            name = "PGMsim_r%d_%s" % (er, route)
            ms.append(ModelRun("PGMIndex.tla", pgm_cfg(work, name, 400, 40, 1, er, 400, route, 1, PGM_INV, minbuild=30, maxstep=9), name + " (simulation, arrays of 30..40 keys over 0..399)",
                               workers=2, timeout=1500, simulate="num=%d,depth=40" % nsim, exhaustive=False,
                               constants={"U": 400, "N": 40, "Eps": 1, "EpsRec": er, "RouteMode": route, "MinBuildLen": 30, "MaxStep": 9, "traces": nsim * 2}))
        ms.append(ModelRun("PGMIndex.tla", pgm_cfg(work, "W_three", 400, 40, 1, 1, 400, "linear", 1, ["WitnessThreeLevels"], minbuild=34, maxstep=9), "witness: an index with three levels (simulation)",
                           workers=2, timeout=900, simulate="num=8000,depth=60", expect="violation:*"))
        # the arithmetic core of the +2 slack, for all naturals (Apalache / Z3)
        ms.append(ApalacheRun("RangeLemma.tla", "Lemma", "RangeLemma (Apalache): lo <= r <= hi, width <= 2Eps+2, for all naturals"))
        ms.append(ApalacheRun("RangeLemma.tla", "Strict", "RangeLemma (Apalache): r < hi for a present key, for all naturals"))
        for w in ("WitnessTwoLevels", "WitnessRoundDown", "WitnessExtra", "WitnessNoExtra"):
            ms.append(ModelRun("PGMIndex.tla", pgm_cfg(work, "W_" + w, 8, 6, 1, 1, 8, "linear", 1, [w]), "witness: " + w, workers=1, timeout=300, expect="violation:*"))
        return ms

    def seg_models(self, tier, work):
        ms = []
        U, N = (9, 7) if tier == "quick" else (10, 8)
        for eps in (0, 1, 2) if tier == "quick" else (0, 1, 2, 3):
            name = "Seg_e%d" % eps
            ms.append(ModelRun("MCSegmentation.tla", seg_cfg(work, name, U, N, eps, 3, False, ["C03Holds", "C04Holds"]), name, workers=3, timeout=2400,
                               constants={"U": U, "N": N, "Eps": eps, "MaxChunks": 3}))
        ms.append(ModelRun("MCSegmentation.tla", seg_cfg(work, "SegDP", 8, 6, 1, 3, True, ["C03Holds", "C04Holds", "GreedyIsOptimal"]), "SegDP (optimum by dynamic programming)",
                           workers=2, timeout=1200, constants={"U": 8, "N": 6, "Eps": 1, "MaxChunks": 3, "UseDP": True}))
        X, Y, P = (9, 8, 6) if tier == "quick" else (11, 9, 7)
        for eps in (0, 1, 2):
            name = "PLA_e%d" % eps
            ms.append(ModelRun("PLA.tla", pla_cfg(work, name, X, Y, eps, P, ["DecisionOK", "RectOK", "ReportedLineOK", "HullInBounds"], ["Maximal"]), name,
                               workers=3, timeout=2400, constants={"XMax": X, "YMax": Y, "Eps": eps, "MaxPts": P}))
        for w in ("WitnessReject", "WitnessUpdate", "WitnessInside"):
            ms.append(ModelRun("PLA.tla", pla_cfg(work, "W_" + w, 8, 7, 1, 5, [w]), "witness: " + w, workers=1, timeout=300, expect="violation:*"))
        for w in ("WitnessTwoSegs", "WitnessGuard", "WitnessSkippedChunk"):
            ms.append(ModelRun("MCSegmentation.tla", seg_cfg(work, "W_" + w, 8, 6, 1, 3, False, [w]), "witness: " + w, workers=1, timeout=300, expect="violation:*"))
        return ms

    which_models = "pgm"

    def pre_record(self, tier, seed, bins, work):
        self._late = self.pgm_models(tier, work) if self.which_models == "pgm" else self.seg_models(tier, work)
        return {}

    def models_late(self):
        return self._late

    def recordings(self, tier, seed, bins, work):
        return [Recording("rec_static_%d" % p, ["--shards", "5"], "static part %d" % p, timeout=1200) for p in range(3)]


class C01(StaticCheck):
    id = "C01"
    title = "PGMIndex: a present key's first occurrence lies inside the returned range"


class C02(StaticCheck):
    id = "C02"
    title = "PGMIndex: lower_bound inside the returned range equals the global lower_bound"


class C07(StaticCheck):
    id = "C07"
    title = "bounded work per query: <= 2*EpsilonRecursive+3 segments per level"


class C03(StaticCheck):
    id = "C03"
    title = "piecewise-linear model: every constraint point within epsilon of its segment"
    which_models = "seg"


class C04(StaticCheck):
    id = "C04"
    title = "piecewise-linear model: segments are maximal, their number minimal"
    which_models = "seg"


CHECKS = [C01, C02, C03, C04, C07]
