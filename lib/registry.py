"""The registered checks (one module per area)."""
import importlib

MODULES = ("props_static", "props_dynamic", "props_variants", "props_mapped", "props_md", "props_misc")


def registry():
    reg = {}
    for mod in MODULES:
        try:
            m = importlib.import_module(mod)
        except ModuleNotFoundError as e:
            if e.name != mod:
                raise
            continue
        for c in m.CHECKS:
            reg[c.id] = c
    return reg
