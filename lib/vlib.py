"""Driver library of the PGM-index verification machinery.

Nothing in here judges a property: harness binaries record what the implementation did, TLC decides.  This module
builds the recorders from /repo's current working tree (content-hash cached), runs TLC on model configurations and on
recorded traces, collects what TLC printed, matches rejections against known_findings.json and writes the evidence.
"""
import concurrent.futures as cf
import glob
import hashlib
import json
import os
import re
import shutil
import subprocess
import sys
import time

VERIF = os.path.dirname(os.path.dirname(os.path.abspath(__file__)))
REPO = os.environ.get("VERIF_REPO", "/repo")
SPEC = os.path.join(VERIF, "spec")
HARNESS = os.path.join(VERIF, "harness")
BUILD = os.path.join(VERIF, "build")
BIN = os.path.join(BUILD, "bin")
TMPROOT = os.path.join(BUILD, "tmp")
GUARD = "PGM_INDEX_VERIF"
NCPU = os.cpu_count() or 4


class MachineryError(Exception):
    """Something other than the property failed (compile error, TLC parse error, timeout...): exit status 2."""


def log(*a):
    print(*a, flush=True)


# ------------------------------------------------------------------------------------------------------------------
# building the recorders from /repo's working tree
def _repo_digest():
    h = hashlib.sha256()
    files = []
    for root in ("include", "c-interface"):
        for dp, dn, fn in os.walk(os.path.join(REPO, root)):
            for f in fn:
                if f.endswith((".hpp", ".h", ".cpp", ".c")):
                    files.append(os.path.join(dp, f))
    for f in sorted(files):
        h.update(f.encode())
        with open(f, "rb") as fh:
            h.update(fh.read())
    return h.hexdigest()


_digest_cache = None


def repo_digest():
    global _digest_cache
    if _digest_cache is None:
        _digest_cache = _repo_digest()
    return _digest_cache


BASE_FLAGS = ["-std=c++17", "-O1", "-march=native", "-D" + GUARD, "-I" + os.path.join(REPO, "include"),
              "-I" + os.path.join(REPO, "c-interface"), "-I" + HARNESS, "-w"]


def build(name, sources, extra_flags=(), compiler="g++", openmp=True, timeout=900):
    """Compile harness/<sources> against /repo's working tree; cached by content hash. Returns the binary's path."""
    os.makedirs(BIN, exist_ok=True)
    h = hashlib.sha256()
    h.update(repo_digest().encode())
    srcs = [os.path.join(HARNESS, s) if not os.path.isabs(s) else s for s in sources]
    for s in srcs + sorted(glob.glob(os.path.join(HARNESS, "*.hpp"))):
        with open(s, "rb") as fh:
            h.update(fh.read())
    flags = list(BASE_FLAGS) + list(extra_flags) + (["-fopenmp"] if openmp else [])
    h.update((compiler + " ".join(flags)).encode())
    out = os.path.join(BIN, "%s-%s" % (name, h.hexdigest()[:16]))
    if os.path.exists(out):
        return out
    for old in glob.glob(os.path.join(BIN, name + "-*")):   # keep the cache small (but never pull a binary from under a concurrent check)
        try:
            if time.time() - os.path.getmtime(old) > 6 * 3600:
                os.remove(old)
        except OSError:
            pass
    tmp = out + ".tmp%d" % os.getpid()
    cmd = [compiler] + flags + srcs + ["-o", tmp, "-lpthread"]
    t0 = time.time()
    p = subprocess.run(cmd, capture_output=True, text=True, timeout=timeout)
    if p.returncode != 0:
        raise MachineryError("compilation of %s failed:\n%s" % (name, p.stderr[-4000:]))
    os.replace(tmp, out)
    log("  built %s in %.0fs" % (name, time.time() - t0))
    return out


def build_many(specs):
    """specs: list of dicts(name, sources, extra_flags, compiler, openmp); builds in parallel, returns {name: path}."""
    res = {}
    with cf.ThreadPoolExecutor(max_workers=min(len(specs), NCPU)) as ex:
        futs = {ex.submit(build, s["name"], s["sources"], s.get("extra_flags", ()), s.get("compiler", "g++"),
                          s.get("openmp", True)): s["name"] for s in specs}
        for f in cf.as_completed(futs):
            res[futs[f]] = f.result()
    return res


# ------------------------------------------------------------------------------------------------------------------
# scratch directories (under /verif/build/tmp, removed by the command that made them)
_scratch_lock = __import__("threading").Lock()
_scratch_n = [0]


def scratch(tag):
    with _scratch_lock:
        _scratch_n[0] += 1
        n = _scratch_n[0]
    d = os.path.join(TMPROOT, "%s.%d.%d.%d" % (tag, os.getpid(), int(time.time() * 1000) % 100000, n))
    os.makedirs(d, exist_ok=True)
    return d


def rmtree(d):
    shutil.rmtree(d, ignore_errors=True)


# ------------------------------------------------------------------------------------------------------------------
# TLC
JAVA = ["java", "-XX:+UseParallelGC", "-Xss128m"]
CP = "/opt/veriftools/tla/tla2tools.jar:/opt/veriftools/tla/CommunityModules-deps.jar"

_STATS = re.compile(r"(\d[\d,]*) states generated, (\d[\d,]*) distinct states found, (\d[\d,]*) states left on queue")
_DEPTH = re.compile(r"The depth of the complete state graph search is (\d+)")


def _num(s):
    return int(s.replace(",", ""))


def run_tlc(module, cfg, workers=4, timeout=600, env=None, heap="4g", extra=(), simulate=None, cwd=SPEC,
            deque=False):
    """Runs TLC; returns dict(rc, out, states, distinct, depth, ok, violated, wall_s)."""
    meta = scratch("tlc")
    cmd = list(JAVA) + ["-Xmx" + heap, "-Djava.io.tmpdir=" + meta]     # TLC's own temporary directories go away with the metadir
    if deque:
        cmd.append("-Dtlc2.tool.queue.IStateQueue=StateDeque")
    cmd += ["-cp", CP, "tlc2.TLC", "-noGenerateSpecTE", "-workers", str(workers), "-metadir", meta, "-config", cfg]
    if simulate:
        cmd += ["-simulate", simulate]
    cmd += list(extra) + [module]
    e = dict(os.environ)
    if env:
        e.update(env)
    t0 = time.time()
    try:
        p = subprocess.run(cmd, capture_output=True, text=True, timeout=timeout, env=e, cwd=cwd)
        out, rc = p.stdout + p.stderr, p.returncode
        timed_out = False
    except subprocess.TimeoutExpired as ex:
        out = (ex.stdout or b"").decode("utf-8", "replace") if isinstance(ex.stdout, bytes) else (ex.stdout or "")
        rc, timed_out = -9, True
    finally:
        rmtree(meta)
    r = {"rc": rc, "out": out, "wall_s": time.time() - t0, "timed_out": timed_out, "cmd": " ".join(cmd[4:])}
    m = None
    for m in _STATS.finditer(out):
        pass
    if m:
        r["states"], r["distinct"], r["queue"] = _num(m.group(1)), _num(m.group(2)), _num(m.group(3))
    else:
        r["states"] = r["distinct"] = 0
        r["queue"] = -1
    d = _DEPTH.search(out)
    r["depth"] = int(d.group(1)) if d else 0
    r["ok"] = (rc == 0 and "No error has been found" in out) or (simulate is not None and timed_out is False and rc == 0)
    inv = re.search(r"Invariant (\S+) is violated", out)
    prop = re.search(r"(?:Temporal properties were violated|Action property (\S+) is violated)", out)
    r["violated"] = inv.group(1) if inv else (prop.group(1) or "temporal") if prop else None
    r["postcondition_false"] = "Postcondition" in out and "is false" in out
    return r


def tlc_error_text(r, n=30):
    lines = [x for x in r["out"].splitlines() if not re.match(r"^(Parsing|Semantic|Linting|Warning: Failed to match)", x)]
    return "\n".join(lines[-n:])


def parse_coverage(out):
    """Per-action counts from -coverage output: {action: (distinct, generated)}."""
    cov = {}
    for m in re.finditer(r"<(\w+) line \d+, col \d+ to line \d+, col \d+ of module (\w+)>: (\d+):(\d+)", out):
        cov[m.group(1)] = (int(m.group(3)), int(m.group(4)))
    return cov


# ------------------------------------------------------------------------------------------------------------------
# trace validation
# TLC wraps long tuples over several lines: tolerate any white space between the elements
_VIOL = re.compile(r'<<\s*"TRACE-VIOLATION",\s*"(\w+)",\s*(\d+),\s*(-?\d+),\s*"([^"]*)"\s*>>')
_DRIFT = re.compile(r'<<\s*"TRACE-DRIFT",\s*"(\w+)",\s*(\d+),\s*(-?\d+),\s*"([^"]*)"\s*>>')
_DONE = re.compile(r'<<\s*"TRACE-DONE",\s*(\d+),\s*(\d+),\s*(\d+)\s*>>')
_COUNT = re.compile(r'<<\s*"TRACE-COUNT",\s*"(\w+)",\s*(\d+)\s*>>')


def validate_trace(trace_module, cfg, path, timeout=900, heap="3g"):
    """One single-worker TLC run over one ndjson file.  Returns dict with accepted/violations/drifts/lines."""
    r = run_tlc(trace_module, cfg, workers=1, timeout=timeout, env={"TRACE": path}, heap=heap)
    out = r["out"]
    res = {"path": path, "wall_s": r["wall_s"], "violations": [], "drifts": [], "lines": 0, "counts": {},
           "machinery_error": None, "accepted": False, "truncated_at": None}
    for m in _VIOL.finditer(out):
        res["violations"].append({"prop": m.group(1), "line": int(m.group(2)), "x": int(m.group(3)), "what": m.group(4)})
    for m in _DRIFT.finditer(out):
        res["drifts"].append({"prop": m.group(1), "line": int(m.group(2)), "x": int(m.group(3)), "what": m.group(4)})
    for m in _COUNT.finditer(out):
        res["counts"][m.group(1)] = res["counts"].get(m.group(1), 0) + int(m.group(2))
    d = _DONE.search(out)
    if d:
        res["lines"] = int(d.group(1))
        # the trace specification counts its own violations: every one of them must have been parsed from the output
        if int(d.group(2)) != len(res["violations"]):
            res["machinery_error"] = "TLC counted %s violations on %s but %d were parsed from its output" % (d.group(2), path, len(res["violations"]))
            return res
    if r["timed_out"]:
        res["machinery_error"] = "TLC timed out on %s" % path
    elif r["ok"] and d:
        res["accepted"] = True
    elif r["postcondition_false"] or (r["rc"] != 0 and "No error has been found" in out and not d):
        # the trace could not be consumed to its end: a line with no matching action (Crash, unknown event)
        res["truncated_at"] = r["depth"] + 1
        res["lines"] = r["depth"]
    else:
        res["machinery_error"] = "TLC failed on %s (rc=%s):\n%s" % (path, r["rc"], tlc_error_text(r))
    return res


def validate_traces(trace_module, cfg, paths, timeout=900, jobs=None, heap="3g"):
    jobs = jobs or max(1, min(len(paths), NCPU // 2))
    with cf.ThreadPoolExecutor(max_workers=jobs) as ex:
        return list(ex.map(lambda p: validate_trace(trace_module, cfg, p, timeout, heap), paths))


def read_lines(path):
    with open(path) as f:
        return f.read().splitlines()


def execution_of(lines, lineno):
    """The lines (1-based numbers) of the execution that contains lineno: from its Reset line to the line itself."""
    i = lineno - 1
    start = i
    while start > 0 and '"e":"Reset"' not in lines[start]:
        start -= 1
    return start, i


# ------------------------------------------------------------------------------------------------------------------
# known findings
def load_known():
    p = os.path.join(VERIF, "known_findings.json")
    if not os.path.exists(p):
        return {"known": [], "fixed": []}
    with open(p) as f:
        return json.load(f)


def match_known(prop, ctx):
    """ctx: dict describing the rejected line (cls, what, tags, ...).  An entry matches when every key of its `match`
    object equals the context's value (for `tags_all`: every listed tag is present)."""
    for k in load_known().get("known", []):
        if k.get("property") != prop:
            continue
        m = k.get("match", {})
        ok = True
        for key, val in m.items():
            if key == "tags_all":
                if not all(t in ctx.get("tags", []) for t in val):
                    ok = False
            elif ctx.get(key) != val:
                ok = False
        if ok:
            return k
    return None


# ------------------------------------------------------------------------------------------------------------------
# evidence
def write_evidence(prop, tier, seed, coverage, wall_s, violations, assumptions, level="model_checking"):
    # runs against a scratch copy of the repository (VERIF_REPO: mutants, seeded changes) must not overwrite the evidence of /repo
    evdir = "evidence" if REPO == "/repo" else os.path.join("build", "evidence_scratch")
    os.makedirs(os.path.join(VERIF, evdir), exist_ok=True)
    ev = {"property_id": prop, "tier": tier, "seed": int(seed), "level": level, "coverage": coverage,
          "assumptions": assumptions, "wall_s": round(wall_s, 1), "violations": int(violations)}
    p = os.path.join(VERIF, evdir, prop + ".json")
    with open(p + ".tmp", "w") as f:
        json.dump(ev, f, indent=1)
    os.replace(p + ".tmp", p)
    return p


def save_replay(prop, name, lines, meta):
    d = os.path.join(VERIF, "replays", prop)
    os.makedirs(d, exist_ok=True)
    p = os.path.join(d, name + ".ndjson")
    with open(p, "w") as f:
        f.write(json.dumps({"e": "Meta", **meta}) + "\n")
        for ln in lines:
            f.write(ln + "\n")
    return p
