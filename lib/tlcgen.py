"""Spec -> code: harvest behaviours that TLC printed (PrintT(<<"HIST", ToJson(hist)>>)) as replayable histories."""
import json
import re

from vlib import *  # noqa

_HIST = re.compile(r'^<<"HIST", "(.*)">>$')


def harvest_hist(out, limit=None, dedupe_prefix=False):
    hs, seen = [], set()
    for line in out.splitlines():
        m = _HIST.match(line.strip())
        if not m:
            continue
        try:
            h = json.loads(m.group(1).replace('\\"', '"'))
        except Exception:
            continue
        key = json.dumps(h[:-1] if dedupe_prefix else h)
        if key in seen:
            continue
        seen.add(key)
        hs.append(h)
        if limit and len(hs) >= limit:
            break
    return hs


def gen_histories(module, cfg, seed, simulate=None, workers=4, timeout=300, limit=None, dedupe_prefix=False):
    extra = ["-seed", str(seed)] if simulate else []
    r = run_tlc(module, cfg, workers=workers, timeout=timeout, simulate=simulate, extra=extra, heap="3g")
    if r["timed_out"] or (r["rc"] != 0):
        raise MachineryError("behaviour generation %s failed (rc=%s)\n%s" % (cfg, r["rc"], tlc_error_text(r)))
    return harvest_hist(r["out"], limit, dedupe_prefix), r
