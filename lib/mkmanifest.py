#!/usr/bin/env python3
"""Regenerates MANIFEST.json from the registered checks (single source of truth: lib/props_*.py + this file)."""
import json
import os
import subprocess
import sys

sys.path.insert(0, os.path.dirname(os.path.abspath(__file__)))
VERIF = os.path.dirname(os.path.dirname(os.path.abspath(__file__)))

LEVEL_TEXT = {
 "C05": "TLC checks exhaustively, on DynamicPGM.tla (an action-per-critical-section transcription of insert/merge cascade and of find/lower_bound), that point queries equal the ordered-map meaning for every history of the small configurations (incl. every history of any length over 4 keys); the real class is bound to it by trace validation: every answer of find/count/lower_bound after every update of seeded and TLC-generated histories is judged by TLC against the map (tier A), and the logged layout must equal the model's state (tier B).",
 "C06": "as C05 for traversal from begin()/every lower_bound, range(lo,hi) for every lo<=hi, size and empty: the iterator (cursor per level + loser-tree tie-breaking, equal-key and tombstone skipping) and range() are transcribed in DynamicPGM.tla and checked by TLC; every recorded traversal/range/size/empty of the real class is judged by TLC.",
 "C15": "the LSM invariants (strictly sorted levels, capacities, nothing beyond used_levels, index built on exactly the level's keys, reset of emptied levels' indexes) are TLC invariants of DynamicPGM.tla over all histories of the small configurations, with reachability witnesses against vacuity; on the code side the private layout is logged through a guarded friend accessor after every update and TLC evaluates the same invariants on it.",
}
NOTE = {
 "C05": "trusted: TLC, the recorder's projection (harness/rec_dynamic.cpp + access.hpp), rank relabelling of keys; exhaustive only for Base=2/MinLevel=1/<=5 keys, sampled beyond",
 "C06": "trusted: TLC, the recorder's projection; traversals are capped at 4*U+16 steps (an overrun is logged and rejected)",
 "C15": "trusted: TLC, the friend accessor (hook H3) and the byte-wise comparison of the stored index with a freshly built one",
}
DESIGN_REF = {"C05": "4/C05", "C06": "4/C06", "C15": "4/C15"}


def main():
    from registry import registry
    reg = registry()
    props = [json.loads(l)["id"] for l in open(os.path.join(VERIF, "properties.jsonl"))]
    hooks = subprocess.run(["git", "-C", "/repo", "log", "--format=%H %s"], capture_output=True, text=True).stdout.splitlines()
    hook_commits = [h.split()[0] for h in hooks if "verif hook" in h]
    checks = []
    for pid in props:
        if pid not in reg:
            continue
        c = reg[pid]
        checks.append({
            "property_id": pid,
            "quick_cmd": "bin/check %s quick" % pid,
            "thorough_cmd": "bin/check %s thorough" % pid,
            "evidence_file": "/verif/evidence/%s.json" % pid,
            "replay_cmd_template": "bin/check %s quick --replay {path}" % pid,
            "engine": "tlc",
            "level_claimed": {"category": "model_checking", "text": LEVEL_TEXT.get(pid, getattr(c, "level_text", c.title)),
                              "design_ref": DESIGN_REF.get(pid, "4/" + pid)},
            "level_note": NOTE.get(pid, getattr(c, "level_note", "trusted: TLC, the recorder's projection of the implementation state")),
            "technique": getattr(c, "technique", "explicit TLA+ specification model-checked by TLC + TLC trace validation of recorded executions of the real code + replay of TLC-generated behaviours"),
        })
    na = []
    na_path = os.path.join(VERIF, "lib", "not_applicable.json")
    reasons = json.load(open(na_path)) if os.path.exists(na_path) else {}
    for pid in props:
        if pid not in reg:
            na.append({"property_id": pid, "reason": reasons.get(pid, "check not built yet in this round (planned in DESIGN.md section 4/%s)" % pid)})
    man = {
        "version": 1,
        "setup_cmd": "bin/setup",
        "hooks": {"guard": "PGM_INDEX_VERIF",
                  "enable": "recorders under /verif/harness are compiled by bin/check with -DPGM_INDEX_VERIF -I/repo/include (header-only library; no change to the repository's build)",
                  "baseline_off_cmd": "bin/baseline_off",
                  "source_commits": hook_commits[::-1],
                  "add_only": True},
        "engines": [{"name": "tlc", "path": "/verif/bin/check", "serves_properties": [c["property_id"] for c in checks],
                     "kind_free_text": "TLC 1.8 on explicit TLA+ specifications under /verif/spec (model configurations + trace specifications); C++ recorders under /verif/harness only drive and record the implementation"}],
        "checks": checks,
        "not_applicable": na,
        "notes": "Every verdict is produced by TLC. `bin/check <id> <tier>` rebuilds the recorders from /repo's working tree (content-hash cache in /verif/build), runs the model configurations, records the real code, validates the recordings with the trace specification, and writes evidence/<id>.json. exit 2 = machinery failure (never a VIOLATION line).",
    }
    with open(os.path.join(VERIF, "MANIFEST.json"), "w") as f:
        json.dump(man, f, indent=1)
    print("MANIFEST.json: %d checks, %d not_applicable" % (len(checks), len(na)))


if __name__ == "__main__":
    main()
