#!/usr/bin/env python3
"""Regenerates MANIFEST.json from the registered checks (single source of truth: lib/props_*.py + this file)."""
import json
import os
import subprocess
import sys

sys.path.insert(0, os.path.dirname(os.path.abspath(__file__)))
VERIF = os.path.dirname(os.path.dirname(os.path.abspath(__file__)))

LEVEL_TEXT = {
 "C01": "PGMIndex.tla transcribes build (segmentation, extra/sentinel segment, upper levels) and search (clamp, per-level predict/cap/window/scan, final predict/cap/widen) with float rounding as bounded nondeterminism; TLC checks C01 for every sorted array with duplicates of S(8,6)/S(10,7), every present query, every rounding choice, three routing modes, adjacent and far sentinel, 1-3 chunks. The real class is bound to it by trace validation: every search result recorded on every array of small universes at three placements in the key type, on structured generators for 35 template configurations over 10 key types, on forced chunk counts and on the library's own chunked path is judged by TLC (tier A); the recorded segments must equal the model's build (tier B).",
 "C02": "same model and recordings as C01 with every query -1..Sentinel-1 in the model and, in the recordings, sampled keys +-1, gap midpoints, first-1, last+1, lowest, max-1 and queries powers of two away; TLC requires lower_bound restricted to the returned range to equal the global lower bound.",
 "C03": "PLA.tla (the hull machine on a grid) and MCSegmentation.tla (all arrays S(9,7)/S(10,8), eps 0..3, 1-3 chunks) are checked by TLC against an oracle that shares nothing with the hull code (a line through two band corners inside every band, integer cross-multiplication): accepted prefixes are feasible, the rectangle's diagonals are the extreme feasible slopes, the reported line is within eps+1/2 of every point. On the code side hook H1 records every point handed to the builder and the reported lines of direct make_segmentation(_par) calls; TLC evaluates ordering, first-occurrence coverage, feasibility and the eps distance on what was recorded.",
 "C04": "as C03: Maximal (no line fits a segment plus the next point, by the oracle), the count equals the optimum computed by dynamic programming over the oracle (and by oracle-greedy, shown equal), starts more than 2eps ranks apart, count bounds; on recordings TLC evaluates maximality (segments up to 26 points), the optimum (arrays up to 120 keys), start distances and count bounds for level 0 and, through the hook, for every upper level of recorded PGMIndex builds.",
 "C05": "TLC checks exhaustively, on DynamicPGM.tla (an action-per-critical-section transcription of insert/merge cascade and of find/lower_bound), that point queries equal the ordered-map meaning for every history of the small configurations (incl. every history of any length over 4 keys in thorough); the real class is bound to it by trace validation: every answer of find/count/lower_bound after every update of seeded, TLC-generated and witness histories is judged by TLC against the map (tier A), and the logged layout must equal the model's state (tier B).",
 "C06": "as C05 for traversal from begin()/every lower_bound, range(lo,hi) for every lo<=hi, size and empty: the iterator (cursor per level + loser-tree tie-breaking, equal-key and tombstone skipping) and range() are transcribed in DynamicPGM.tla and checked by TLC; every recorded traversal/range/size/empty of the real class is judged by TLC. The tournament tree itself is modelled cell by cell in LoserTree.tla (WinnerIsMin, TournamentOK, liveness Drained on every choice of <= 4-5 short sequences; a replay without the source tie-break must fail) and the real pgm::internal::LoserTree, driven as the iterator drives it, is validated against it line by line.",
 "C07": "C07a/C07b are invariants of PGMIndex.tla (responsible segment within EpsRec+1 of the prediction, <= 2EpsRec+3 segments touched, scan inside the window, level sizes) on all small inputs; on the code side hook H2 records the descent of every query (predicted position, window, chosen segment, level size) and hook H1 the segmentation of every upper level; TLC checks the same bounds and that the chosen segment is the rightmost one starting at or before the key.",
 "C08": "tier A holds CompressedPGMIndex to the search contract on every recorded query (all arrays of small universes, structured and clustered 64-bit inputs, EpsRec 0 / small / 256); levels much longer than the routing window with EpsRec just above the linear-scan threshold, forced and real chunked builds); the per-level routing (window scan and windowed binary search) is model-checked in Variants.tla under the premise that the prediction is within EpsRec+1 of the responsible segment, Compressed.tla transcribes the one-level and the recursive index with exact rational geometry (slope ranges from the builder's rectangle, sorted and greedily intersected, shared midpoint slope, intercept through the intersection of the extreme lines with ties either way, clamped and offset intercepts, search with the float product as bounded nondeterminism) and TLC checks the contract on every array of S(10,7)/S(10,8) (thorough S(12,8)/S(12,9)) - with a first level built in chunks it must fail (F16) -, recorded builds (one-level and recursive, n <= 48) must equal the model's keys and decoded intercepts at every stored level (tier B); CompIntercepts.tla checks the clamped, Elias-Fano coded intercepts (builder preconditions, decoded value within Eps of the rank, and NoUpwardShift: the lower clamp never binds when segments start > 2 Eps ranks apart - the chunk-seam variant must fail), and the PGMIndex search model covers the rest.",
 "C09": "Variants.tla (bucketing mode) enumerates every set of segment keys of a 3-bit (thorough: 4-bit) universe for TopLevelSize 2,3,4,5,8: the table fill with its overflow guard and the bucket->slice->upper_bound-1 lookup return the responsible segment and stay in bounds; recordings expose step, table, bucket, slice and chosen segment of every query through a subclass and TLC checks the same, plus the search contract and the empty ranges outside [first,last].",
 "C10": "Variants.tla (eliasfano mode) encodes every non-decreasing key set of the small universe with low widths 1..3 and transcribes pred() branch by branch (beyond-universe, bucket selection by select0, binary search on the low bits, prev on the high bits): TLC checks it returns the rightmost element <= key and never selects out of range; recordings log pred() (friend accessor) for every query and TLC checks it against the segment keys, plus the search contract.",
 "C11": "Mapped.tla (queries mode) checks lower_bound / upper_bound (bounded search + gallop + final search) / count / contains against the sequence oracles for every sorted sequence with long runs over a tiny universe, every admissible range of the abstract static index and every query; recordings log the answers of every open container and the sequence read back through begin()/end(), judged by TLC.",
 "C12": "Mapped.tla (files mode) explores every order of CreateFromRange / CreateFromRaw / Reopen / Close on two files (<= 6-7 actions): all files identical, headers describe the data, reopening and closing change nothing; TLC's orders are executed on the real class in a scratch directory (under a descriptor limit of 48 + shards, so that a construction that keeps a descriptor makes later constructions of the same run fail) and the logged content classes, header fields and answers are judged by TLC.",
 "C13": "Multidim.tla is the Z-order scan as a state machine (Start, First, Hit, Miss, Jump, Exhausted) with bigmin transcribed bit by bit: TLC checks, for every multiset of <= 3-4 codes of the 4x4 grid, every box and miss thresholds 0..2, that the produced sequence is a prefix of / equals the stored codes inside the box, that bigmin equals its oracle for every triple, in-boundness, and termination under fairness; recordings on dense grids (so that the real threshold of 64 misses is exceeded) are compared by TLC with the points in the box sorted by the specification's own Morton code.",
 "C14": "contains(p) <=> membership is an invariant of Multidim.tla for every cell; on recordings TLC checks every contains() answer for stored points and ~60 random cells per execution (below, between and above the stored codes), for repeated and alternating hit/miss queries, and for boundary points asked as the first query of freshly built twins.",
 "C15": "the LSM invariants (strictly sorted levels, capacities, nothing beyond used_levels, index built on exactly the level's keys, reset of emptied levels' indexes) are TLC invariants of DynamicPGM.tla over all histories of the small configurations, with reachability witnesses against vacuity; on the code side the private layout is logged through a guarded friend accessor after every update and TLC evaluates the same invariants on it.",
 "C16": "Readers.tla explores every interleaving of the readers' Begin/RouteStep/Finish steps: results equal sequential results and no step writes shared state (a shared-memo variant must fail); recordings of 2..16 threads querying one so far unqueried object of each class (boundary probes first) are judged by TLC (each concurrent answer = the sequential answer of an identically built twin, object unchanged afterwards); the recorder is ThreadSanitizer-instrumented, a race report aborts the recording and the trace is rejected.",
 "C17": "InBounds invariants of PGMIndex / Variants / Multidim / Mapped / DynamicPGM decide the modelled unchecked-access sites on every input of their small universes; the quick corpora of all recorders (boundary sizes, boundary keys, iterators to end(), lifecycle histories) are executed by AddressSanitizer-instrumented binaries, TLC accepts a recording only if every execution reached its End line and every logged index lies inside its structure.",
 "C18": "the static wrapper is bound to PGMIndex.tla (EpsRec = 4, run-time epsilon 1..3 in the model; 1,2,7,64,4096 in recordings) and the dynamic wrapper to DynamicPGM.tla's ordered-map meaning: a C-linkage client records create/search/destroy and create/insert_or_assign/erase/find/lower_bound/begin/iterator_next/size call sequences, TLC judges every result.",
 "C19": "Lifecycle.tla explores every history of <= 5-6 copy/move/destroy/mutate/query operations over 3 object slots: no live object refers to another object's storage, no query dangles, values change only by the object's own mutation or assignment (member-wise copy variant must fail); every TLC history of 4 operations is executed on the real classes (heap objects, ASan), after each step the answer class of every live object is judged by TLC against the value it must hold.",
 "C20": "Reject.tla pairs every documented precondition with an Accept and a Reject action (exception, nothing changes; NeverIndexed, Total); recordings place each violation at every position (reserved key, unsorted pair, base, reserved mapped value, lo > hi, wide coordinate, non-increasing key, negative epsilon) with valid controls in between and TLC decides the required outcome from the logged arguments.",
}
NOTE = {
 "C01": "trusted: TLC; the recorder's projection and normalisation (rank relabelling keeps order and equality; offset normalisation keeps arithmetic); exhaustive for S(8,6)/S(10,7) only, sampled beyond; float slopes modelled as exact-or-one-less",
 "C02": "as C01; queries beyond 16000 above the data are labelled 'far' (same clamp-to-cap behaviour for all of them)",
 "C03": "trusted: TLC, hook H1 (points as handed to the builder), recovery of the reported slope as an exact fraction; floating keys are checked for ordering/coverage only (no real arithmetic in TLC)",
 "C04": "as C03; the O(p^3) oracle is applied to segments of at most 26 points and the optimum to arrays of at most 120 keys (longer ones get the count bounds only)",
 "C05": "trusted: TLC, the recorder's projection (harness/rec_dynamic.cpp + access.hpp), rank relabelling of keys; exhaustive only for Base=2/MinLevel=1/<=5 keys, sampled beyond",
 "C06": "trusted: TLC, the recorder's projection; traversals are capped at 4*U+16 steps (an overrun is logged and rejected)",
 "C07": "trusted: TLC, hooks H1/H2 (read-only logging inside segment_for_key and make_segmentation)",
 "C08": "the merged-slope geometry is modelled with exact rationals on arrays of up to 7-9 keys (one level, and root + one stored level); deeper recursion is held to the contract on recordings and to build equality (tier B) only; float slopes are abstracted as exact-or-one-less products and either-way ties",
 "C09": "trusted: TLC, the subclass exposing protected members; exhaustive for 3/4-bit universes only",
 "C10": "trusted: TLC, friend accessor for pred(); the Elias-Fano model covers universes up to 15 and low widths 1..3",
 "C11": "trusted: TLC; the static index under the container is abstract in the model",
 "C12": "trusted: TLC; content classes of files are computed by the recorder (byte equality)",
 "C13": "trusted: TLC; model limited to 2 dimensions / 2-3 bits; 3 and 4 dimensions by recordings only",
 "C14": "as C13",
 "C15": "trusted: TLC, the friend accessor (hook H3) and the byte-wise comparison of the stored index with a freshly built one",
 "C16": "schedules of the real code are sampled, not enumerated; races are observed by TSan, not modelled",
 "C17": "ASan sees heap/stack/global overflows and use-after-free, not intra-object overruns; sampled inputs only on the code side",
 "C18": "the C interface is opaque: results only; reserved values are outside the domain (no error channel)",
 "C19": "dangling storage is observed through ASan; answers compared as classes of full answer vectors on a fixed probe set",
 "C20": "the multidimensional constructor may raise any exception type (the property names none)",
}
DESIGN_REF = {}


def main():
    from registry import registry
    reg = registry()
    props = [json.loads(l)["id"] for l in open(os.path.join(VERIF, "properties.jsonl"))]
    hooks = subprocess.run(["git", "-C", "/repo", "log", "--format=%H %s"], capture_output=True, text=True).stdout.splitlines()
    hook_commits = [h.split()[0] for h in hooks if "verif hook" in h]
    checks = []
    for pid in props:
        if pid not in reg:
            continue
        c = reg[pid]
        checks.append({
            "property_id": pid,
            "quick_cmd": "bin/check %s quick" % pid,
            "thorough_cmd": "bin/check %s thorough" % pid,
            "evidence_file": "/verif/evidence/%s.json" % pid,
            "replay_cmd_template": "bin/check %s quick --replay {path}" % pid,
            "engine": "tlc",
            "level_claimed": {"category": "model_checking", "text": LEVEL_TEXT.get(pid, getattr(c, "level_text", c.title)),
                              "design_ref": DESIGN_REF.get(pid, "4/" + pid)},
            "level_note": NOTE.get(pid, getattr(c, "level_note", "trusted: TLC, the recorder's projection of the implementation state")),
            "technique": getattr(c, "technique", "explicit TLA+ specification model-checked by TLC + TLC trace validation of recorded executions of the real code + replay of TLC-generated behaviours"),
        })
    na = []
    na_path = os.path.join(VERIF, "lib", "not_applicable.json")
    reasons = json.load(open(na_path)) if os.path.exists(na_path) else {}
    for pid in props:
        if pid not in reg:
            na.append({"property_id": pid, "reason": reasons.get(pid, "check not built yet in this round (planned in DESIGN.md section 4/%s)" % pid)})
    man = {
        "version": 1,
        "setup_cmd": "bin/setup",
        "hooks": {"guard": "PGM_INDEX_VERIF",
                  "enable": "recorders under /verif/harness are compiled by bin/check with -DPGM_INDEX_VERIF -I/repo/include (header-only library; no change to the repository's build)",
                  "baseline_off_cmd": "bin/baseline_off",
                  "source_commits": hook_commits[::-1],
                  "add_only": True},
        "engines": [{"name": "tlc", "path": "/verif/bin/check", "serves_properties": [c["property_id"] for c in checks],
                     "kind_free_text": "TLC 1.8 on explicit TLA+ specifications under /verif/spec (model configurations + trace specifications); C++ recorders under /verif/harness only drive and record the implementation"}],
        "checks": checks,
        "not_applicable": na,
        "notes": "Every verdict is produced by TLC. `bin/check <id> <tier>` rebuilds the recorders from /repo's working tree (content-hash cache in /verif/build), runs the model configurations, records the real code, validates the recordings with the trace specification, and writes evidence/<id>.json. exit 2 = machinery failure (never a VIOLATION line).",
    }
    with open(os.path.join(VERIF, "MANIFEST.json"), "w") as f:
        json.dump(man, f, indent=1)
    print("MANIFEST.json: %d checks, %d not_applicable" % (len(checks), len(na)))


if __name__ == "__main__":
    main()
