"""C08 C09 C10: the compressed / bucketing / Elias-Fano variants against Variants.tla and StaticTrace.tla."""
import os

from runner import *  # noqa

VAR_BUILDS = [{"name": "rec_variants_%d" % p, "sources": ["rec_variants.cpp"], "extra_flags": ["-DPART=%d" % p]} for p in range(3)]


def var_cfg(work, name, mode, keybits, T, eprec, path, invariants):
    p = os.path.join(work, name + ".cfg")
    with open(p, "w") as f:
        f.write("""CONSTANTS Mode = "%s"
 KeyBits = %d
 T = %d
 WLs = {1,2,3}
 EpsRec = %d
 Path = "%s"
SPECIFICATION Spec
INVARIANTS %s
CHECK_DEADLOCK FALSE
""" % (mode, keybits, T, eprec, path, " ".join(invariants)))
    return p


VAR_INV = ["InBounds", "BucketingOK", "TableOK", "EliasFanoOK", "RoutingOK"]


class VariantCheck(Check):
    trace_module = "StaticTrace.tla"
    trace_cfg = "StaticTrace.cfg"
    part = 0
    assumptions = [
        "tier A holds the class to the search contract on every recorded query and to what the property says about its top structure (bucket slice / Elias-Fano predecessor)",
        "keys are offset- or rank-normalised for TLC's 32-bit integers (the contract only needs order and equality)"]
    rule = ("traces: every array of S(8,5)/S(6,4) at three placements in the key type (every second one of >= 4 keys also with a first level forced into 2-3 chunks, "
            "Bucketing / Elias-Fano only) plus structured generators (duplicate runs, saw-tooth, collinear, steps, random, convex curves, curve + far key + dense run, "
            "irregular dense clusters separated by gaps of 2^18..2^26, seams of forced and of the library's own chunked builds; at lowest(), ending at max-1, wide spread, "
            "clustered 64-bit, full span) for the listed template configurations, incl. levels much longer than the routing window; queries: sampled present keys, "
            "key+-1, gap midpoints, both sides of the widest gaps, bucket boundaries, chunk boundaries, first-1, first-2, first, 0, last, last+1, last+2, lowest, max-1, "
            "powers of two away; each query plan repeats queries and asks boundary queries as the first query of a copy taken before any query")

    def variant_models(self, tier, work):
        return []

    def pre_record(self, tier, seed, bins, work):
        self._late = self.variant_models(tier, work)
        return {}

    def models_late(self):
        return self._late

    def routing_models(self, tier, work):
        ms = []
        kb = 3 if tier == "quick" else 4
        for er, path in ((1, "linear"), (2, "linear"), (1, "binary"), (2, "binary")):
            name = "Routing_e%d_%s" % (er, path)
            ms.append(ModelRun("Variants.tla", var_cfg(work, name, "routing", kb, 2, er, path, VAR_INV), name, workers=3, timeout=1500,
                               constants={"Mode": "routing", "KeyBits": kb, "EpsRec": er, "Path": path}))
        return ms

    @property
    def builds(self):
        return [VAR_BUILDS[self.part]]

    def recordings(self, tier, seed, bins, work):
        return [Recording("rec_variants_%d" % self.part, ["--shards", "12"], "variants part %d" % self.part, timeout=1200)]


class C08(VariantCheck):
    id = "C08"
    part = 0
    title = "CompressedPGMIndex honours the search contract of PGMIndex"

    def variant_models(self, tier, work):
        # the per-level routing shared with PGMIndex (window scan / windowed binary search) + the PGMIndex search model
        import props_static
        ms = self.routing_models(tier, work)
        for eps in (1, 2, 3):
            name = "CompIntercepts_e%d" % eps
            cfg = os.path.join(work, name + ".cfg")
            with open(cfg, "w") as f:
                f.write("CONSTANTS Eps = %d\n MaxSegs = 4\n MaxRank = %d\n Slack = %d\n MinGap = %d\nSPECIFICATION Spec\nINVARIANTS BuilderOK ClampOK DecodedOK NoUpwardShift\nCHECK_DEADLOCK FALSE\n" % (eps, 8 + 4 * eps, eps, 2 * eps + 1))
            ms.append(ModelRun("CompIntercepts.tla", cfg, name + " (clamped, Elias-Fano coded intercepts stay strictly increasing and within Eps)", workers=2, timeout=900,
                               constants={"Eps": eps, "MaxSegs": 4, "MaxRank": 8 + 4 * eps}))
        cfg = os.path.join(work, "CompIntercepts_seam.cfg")
        with open(cfg, "w") as f:
            f.write("CONSTANTS Eps = 1\n MaxSegs = 3\n MaxRank = 8\n Slack = 1\n MinGap = 1\nSPECIFICATION Spec\nINVARIANTS NoUpwardShift\nCHECK_DEADLOCK FALSE\n")
        ms.append(ModelRun("CompIntercepts.tla", cfg, "sensitivity: segments that start one rank apart (chunk seam) get an intercept moved up (F16)", workers=1, timeout=300,
                           expect="violation:*", constants={"Eps": 1, "MinGap": 1}))
        def comp_cfg(name, u, n, eps, chunks, inv, epsrec=0, minlen=1, maxstep=0):
            c = os.path.join(work, name + ".cfg")
            with open(c, "w") as f:
                f.write("CONSTANTS U = %d\n N = %d\n Eps = %d\n EpsRec = %d\n NChunks = %d\n Sentinel = %d\n MinBuildLen = %d\n MaxStep = %d\nSPECIFICATION Spec\nINVARIANTS %s\nCHECK_DEADLOCK FALSE\n" % (u, n, eps, epsrec, chunks, u, minlen, maxstep or u, inv))
            return c
        ALLC = "Shape C08Present C08LowerBound BuilderOK ClampOK NoUpwardShift"
        for u, n, eps in ((10, 7, 1), (10, 8, 2)) + (((12, 8, 1), (12, 9, 2)) if tier == "thorough" else ()):
            name = "Compressed_U%d_N%d_e%d" % (u, n, eps)
            ms.append(ModelRun("Compressed.tla", comp_cfg(name, u, n, eps, 1, ALLC), name + " (exact geometry of merge_slopes + clamped intercepts + search, sequential first level)",
                               workers=4, timeout=2400, heap="8g", constants={"U": u, "N": n, "Eps": eps, "NChunks": 1}))
        for u, n, eps, er in ((10, 7, 1, 1),) + (((12, 8, 1, 1), (10, 8, 2, 2)) if tier == "thorough" else ()):
            name = "CompressedRec_U%d_N%d_e%d_r%d" % (u, n, eps, er)
            ms.append(ModelRun("Compressed.tla", comp_cfg(name, u, n, eps, 1, ALLC + " InBounds", er), name + " (recursive: slopes of all levels merged, root model, window + forward scan per level)",
                               workers=4, timeout=2400, heap="8g", constants={"U": u, "N": n, "Eps": eps, "EpsRec": er}))
        ms.append(ModelRun("Compressed.tla", comp_cfg("Compressed_wlevel", 10, 7, 1, 1, "WitnessOneStoredLevel", 1), "witness: a recursive index with a stored level below the root", workers=2, timeout=600,
                           expect="violation:*", constants={"U": 10, "N": 7, "EpsRec": 1}))
        nsim = 1500 if tier == "quick" else 8000
        ms.append(ModelRun("Compressed.tla", comp_cfg("Compressed_sim", 30, 30, 1, 1, ALLC + " InBounds", 1, minlen=24, maxstep=2),
                           "simulation: arrays of 24..30 keys (gaps 0..2), recursive index with two stored levels below the root", workers=4, timeout=1800,
                           simulate="num=%d,depth=40" % nsim, exhaustive=False, constants={"U": 30, "N": 30, "Eps": 1, "EpsRec": 1, "traces": 4 * nsim}))
        ms.append(ModelRun("Compressed.tla", comp_cfg("Compressed_w2", 30, 30, 1, 1, "WitnessTwoStoredLevels", 1, minlen=24, maxstep=2),
                           "witness (simulation): two stored levels below the root", workers=2, timeout=600, simulate="num=30000,depth=40",
                           expect="violation:*", exhaustive=False, constants={"U": 30, "N": 30}))
        ms.append(ModelRun("Compressed.tla", comp_cfg("Compressed_seam", 12, 8, 1, 3, "Shape C08Present C08LowerBound"),
                           "sensitivity: a first level built in 3 chunks violates the search contract (F16 with exact geometry)", workers=4, timeout=900,
                           expect="violation:*", constants={"U": 12, "N": 8, "Eps": 1, "NChunks": 3}))
        ms.append(ModelRun("Compressed.tla", comp_cfg("Compressed_wshared", 10, 6, 1, 1, "WitnessShared"), "witness: two segments share a slope", workers=2, timeout=600,
                           expect="violation:*", constants={"U": 10, "N": 6}))
        ms.append(ModelRun("Compressed.tla", comp_cfg("Compressed_w3", 12, 8, 1, 1, "WitnessThreeSegments"), "witness: three segments on one level", workers=4, timeout=900,
                           expect="violation:*", constants={"U": 12, "N": 8}))
        ms.append(ApalacheRun("ClampLemma.tla", "Lemma", "ClampLemma (Apalache): starts >= 2 Eps + 1 apart => the lower clamp of the stored intercepts never binds, for all integers"))
        ms.append(ApalacheRun("ClampLemma.tla", "Seam", "ClampLemma (Apalache), sensitivity: starts 1 apart (chunk seam) => an intercept is moved up", expect="violation:*"))
        for eps, er, route in ((1, 1, "linear"), (1, 1, "binary_window"), (1, 0, "binary_one_level")):
            name = "PGM_e%d_r%d_%s" % (eps, er, route)
            ms.append(ModelRun("PGMIndex.tla", props_static.pgm_cfg(work, name, 8, 6, eps, er, 8, route, 1, props_static.PGM_INV), name, workers=2, timeout=1500,
                               constants={"U": 8, "N": 6, "Eps": eps, "EpsRec": er, "Sentinel": 8, "RouteMode": route}))
        return ms


class C09(VariantCheck):
    id = "C09"
    part = 1
    title = "BucketingPGMIndex honours the search contract; the top-level table selects the right slice"

    def variant_models(self, tier, work):
        ms = []
        for T in (2, 3, 4, 5, 8):
            name = "Bucketing_T%d" % T
            ms.append(ModelRun("Variants.tla", var_cfg(work, name, "bucketing", 3, T, 1, "linear", VAR_INV), name, workers=2, timeout=900,
                               constants={"Mode": "bucketing", "KeyBits": 3, "T": T}))
        if tier == "thorough":
            for T in (2, 3):
                name = "Bucketing4_T%d" % T
                ms.append(ModelRun("Variants.tla", var_cfg(work, name, "bucketing", 4, T, 1, "linear", VAR_INV), name, workers=4, timeout=3000,
                                   constants={"Mode": "bucketing", "KeyBits": 4, "T": T}))
        ms.append(ModelRun("Variants.tla", var_cfg(work, "W_empty", "bucketing", 3, 8, 1, "linear", ["WitnessEmptyBucket"]), "witness: a bucket without segment start", workers=1, timeout=300, expect="violation:*"))
        ms.append(ModelRun("Variants.tla", var_cfg(work, "W_ovf", "bucketing", 3, 5, 1, "linear", ["WitnessOverflowGuard"]), "witness: i*step overflows the key type", workers=1, timeout=300, expect="violation:*"))
        return ms


class C10(VariantCheck):
    id = "C10"
    part = 2
    title = "EliasFanoPGMIndex honours the search contract; pred selects the rightmost segment <= key"

    def variant_models(self, tier, work):
        ms = [ModelRun("Variants.tla", var_cfg(work, "EliasFano3", "eliasfano", 3, 2, 1, "linear", VAR_INV), "EliasFano, 3-bit universe, wl 1..3", workers=3, timeout=900,
                       constants={"Mode": "eliasfano", "KeyBits": 3, "WLs": "1..3"})]
        if tier == "thorough":
            ms.append(ModelRun("Variants.tla", var_cfg(work, "EliasFano4", "eliasfano", 4, 2, 1, "linear", VAR_INV), "EliasFano, 4-bit universe, wl 1..3", workers=6, timeout=3300, heap="8g",
                               constants={"Mode": "eliasfano", "KeyBits": 4, "WLs": "1..3"}, exhaustive=False))
        ms.append(ModelRun("Variants.tla", var_cfg(work, "W_beyond", "eliasfano", 3, 2, 1, "linear", ["WitnessBeyond"]), "witness: key at or beyond the last value", workers=1, timeout=300, expect="violation:*"))
        ms.append(ModelRun("Variants.tla", var_cfg(work, "W_prev", "eliasfano", 3, 2, 1, "linear", ["WitnessPrevOne"]), "witness: predecessor in an earlier bucket", workers=1, timeout=300, expect="violation:*"))
        return ms


CHECKS = [C08, C09, C10]
