// Recorder for pgm::internal::LoserTree (the tournament tree behind DynamicPGMIndex::Iterator; C06).
// The tree is driven exactly as Iterator::lazy_initialize() / advance() drive it: LoserTree(n), insert_start for every
// cursor, init(), then min_source() / delete_min_insert(next key or nullptr) until every cursor is exhausted.  Every
// min_source() is logged; spec/LoserTrace.tla replays the lines on spec/LoserTree.tla.  The private array is logged through the friend accessor (hook H5) for the cell-by-cell comparison with the model.
#include "rec_common.hpp"
#include "access.hpp"

using namespace vrec;

static std::vector<std::unique_ptr<Out>> g_outs;
static long long g_x = 0, g_only = -1;

// the private array, cell by cell (tier B: must equal the model's `losers`); the exhausted mark max() is written as 1000
template<typename T>
std::string cells_of(const pgm::internal::LoserTree<T> &tree) {
    std::vector<std::vector<long long>> c;
    for (auto &e : pgm::verif::Access::loser_cells(tree))
        c.push_back({e.key == std::numeric_limits<T>::max() ? 1000LL : (long long) e.key, (long long) e.source});
    return jarr2(c);
}

template<typename T>
void run_tree(const std::vector<std::vector<long long>> &seqs, const char *src) {
    long long x = g_x++;
    if (g_only >= 0 && x != g_only) return;
    Out &out = *g_outs[size_t(x) % g_outs.size()];
    const size_t n = seqs.size();
    std::vector<std::vector<T>> data(n);
    for (size_t s = 0; s < n; ++s) for (auto v : seqs[s]) data[s].push_back((T) v);
    out.begin("Reset").num("x", x).str("cls", "LoserTree").str("K", type_name<T>()).num("n", (long long) n).raw("tags", jstrs({src})).end();
    pgm::internal::LoserTree<T> tree((uint8_t) n);
    std::vector<size_t> cur(n, 0);
    for (size_t s = 0; s < n; ++s) tree.insert_start(&data[s][0], (uint8_t) s);
    tree.init();
    size_t unconsumed = n;
    out.begin("LBuild").num("n", (long long) n).raw("seqs", jarr2(seqs)).num("min", (long long) tree.min_source()).raw("cells", cells_of(tree)).end();
    size_t guard = 0, total = 0;
    for (auto &s : seqs) total += s.size();
    while (unconsumed > 0 && guard++ < total + 4) {
        size_t s = tree.min_source();
        if (s >= n || cur[s] >= data[s].size()) {      // an exhausted or non-existent cursor: logged, rejected by the specification
            out.begin("LPop").num("src", (long long) s).num("min", -2).end();
            break;
        }
        ++cur[s];
        if (cur[s] == data[s].size()) { tree.delete_min_insert(nullptr); --unconsumed; }
        else tree.delete_min_insert(&data[s][cur[s]]);
        out.begin("LPop").num("src", (long long) s).num("min", unconsumed ? (long long) tree.min_source() : -1).raw("cells", cells_of(tree)).end();
    }
    out.begin("End").end();
}

static void all_seqs(size_t U, size_t maxlen, std::vector<std::vector<long long>> &acc) {
    std::vector<long long> cur;
    std::function<void()> rec = [&] {
        if (!cur.empty()) acc.push_back(cur);
        if (cur.size() == maxlen) return;
        for (long long k = cur.empty() ? 0 : cur.back(); k < (long long) U; ++k) { cur.push_back(k); rec(); cur.pop_back(); }
    };
    rec();
}

int main(int argc, char **argv) {
    Args a(argc, argv);
    install_crash_handlers();
    std::string outdir = a.get("out", ".");
    g_only = a.geti("only", -1);
    int shards = (int) a.geti("shards", 4);
    for (int i = 0; i < shards; ++i) {
        g_outs.emplace_back(new Out(outdir + "/loser_s" + std::to_string(i) + ".ndjson"));
        open_outs().push_back(g_outs.back().get());
        g_outs.back()->begin("Config").str("cls", "LoserTree").end();
    }
    bool quick = a.get("tier", "quick") == "quick";
    Rng rng((uint64_t) a.geti("seed", 1));
    // (1) every choice of n sequences over a small key universe
    auto exhaustive = [&](size_t n, size_t U, size_t maxlen) {
        std::vector<std::vector<long long>> S;
        all_seqs(U, maxlen, S);
        std::vector<size_t> ix(n, 0);
        for (;;) {
            std::vector<std::vector<long long>> seqs;
            for (size_t s = 0; s < n; ++s) seqs.push_back(S[ix[s]]);
            if (g_x % 2) run_tree<uint32_t>(seqs, "exhaustive"); else run_tree<int64_t>(seqs, "exhaustive");
            size_t d = 0;
            while (d < n && ++ix[d] == S.size()) ix[d++] = 0;
            if (d == n) break;
        }
    };
    exhaustive(1, 3, 3); exhaustive(2, 3, 3); exhaustive(3, 3, 2); exhaustive(4, 3, 2);
    if (!quick) { exhaustive(3, 3, 3); exhaustive(5, 2, 2); exhaustive(6, 2, 1); exhaustive(9, 2, 1); }
    // (2) many cursors, long sequences, few distinct keys (ties everywhere), strictly increasing ones as in a level
    for (int i = 0; i < (quick ? 300 : 3000); ++i) {
        size_t n = i % 5 == 0 ? 1 + rng.below(33) : 1 + rng.below(9);
        size_t U = 2 + rng.below(i % 3 == 0 ? 6 : 40);
        bool strict = i % 2 == 0;
        std::vector<std::vector<long long>> seqs(n);
        for (auto &s : seqs) {
            size_t len = 1 + rng.below(12);
            long long cur = (long long) rng.below(U);
            for (size_t j = 0; j < len; ++j) { s.push_back(cur); cur += strict ? 1 + (long long) rng.below(3) : (long long) rng.below(3); }
        }
        if (i % 2) run_tree<uint32_t>(seqs, strict ? "random_strict" : "random"); else run_tree<int64_t>(seqs, strict ? "random_strict" : "random");
    }
    for (auto &o : g_outs) o->flush();
    return 0;
}
