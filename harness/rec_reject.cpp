// Recorder for C20: reserved values and invalid arguments must be rejected, never silently indexed.
// The violation of a precondition is placed at every position where it can occur; each attempt is logged with its raw
// arguments (normalised) and the class of the outcome (ok / invalid_argument / logic_error / ... / null); for the
// dynamic container the layout is logged before and after a rejected call.  Which outcome is REQUIRED is decided by
// spec/RejectTrace.tla from the logged arguments, not here.
#include "rec_common.hpp"
#include "access.hpp"
extern "C" {
#include "cpgm.h"
}

#include <cmath>
#include <memory>

using namespace vrec;
using pgm::verif::Access;

static Out *g_out;
static long long g_x = 0;
static std::string g_dir;

template<typename K> K reserved() { return std::numeric_limits<K>::has_infinity ? std::numeric_limits<K>::infinity() : std::numeric_limits<K>::max(); }

// data: small sorted array whose last `tail` elements are the reserved value (tail = 0: valid data)
template<typename K> std::vector<K> make_data(size_t n, size_t tail, Rng &rng) {
    std::vector<K> d;
    K cur = K(std::numeric_limits<K>::max() / 2);
    if constexpr (std::is_floating_point_v<K>) cur = K(100);
    for (size_t i = 0; i + tail < n; ++i) {
        d.push_back(cur);
        K step = K(rng.below(3));
        if constexpr (std::is_integral_v<K>) { if (cur >= K(std::numeric_limits<K>::max() - 3)) step = 0; }   // stays below the reserved value
        cur = K(cur + step);
    }
    for (size_t i = 0; i < tail && d.size() < n; ++i) d.push_back(reserved<K>());
    return d;
}

template<typename K, typename Build>
void try_static(const char *cls, size_t n, size_t tail, Rng &rng, Build &&build) {
    auto d = make_data<K>(n, tail, rng);
    std::string o = outcome([&] { build(d); });
    g_out->begin("Try").num("x", g_x++).str("op", "build_static").str("cls", cls).str("K", type_name<K>())
        .num("n", (long long) n).num("reserved_count", (long long) tail).str("out", o).end();
}

template<typename K> void static_family(Rng &rng) {
    // small sizes one by one, then sizes around the first-level segment counts and (for the wide types) the chunked build
    std::vector<size_t> sizes{1, 2, 3, 4, 5, 6, 7, 33, 300};
    if constexpr (sizeof(K) >= 4) sizes.push_back(40000);
    for (size_t n : sizes)
        for (size_t tail = 0; tail <= std::min<size_t>(n, 3); ++tail) {
            try_static<K>("PGMIndex", n, tail, rng, [](const std::vector<K> &d) { pgm::PGMIndex<K, 2, 1> p(d.begin(), d.end()); (void) p; });
            try_static<K>("OneLevel", n, tail, rng, [](const std::vector<K> &d) { pgm::PGMIndex<K, 4, 0> p(d.begin(), d.end()); (void) p; });
            if constexpr (std::is_unsigned_v<K>) {
                try_static<K>("Compressed", n, tail, rng, [](const std::vector<K> &d) { pgm::CompressedPGMIndex<K, 2, 1> p(d.begin(), d.end()); (void) p; });
                try_static<K>("Bucketing", n, tail, rng, [](const std::vector<K> &d) { pgm::BucketingPGMIndex<K, 2, 4, 0> p(d.begin(), d.end()); (void) p; });
                if constexpr (sizeof(K) >= 2) try_static<K>("EliasFano", n, tail, rng, [](const std::vector<K> &d) { pgm::EliasFanoPGMIndex<K, 2> p(d.begin(), d.end()); (void) p; });
            }
            if constexpr (sizeof(K) >= 4 && std::is_integral_v<K>) {
                // the disk-backed container: from a range, and from a raw key file
                std::string f = g_dir + "/reject_mapped.bin", raw = g_dir + "/reject_raw.bin";
                try_static<K>("Mapped", n, tail, rng, [&](const std::vector<K> &d) { pgm::MappedPGMIndex<K, 2, 1> p(d.begin(), d.end(), f); (void) p; });
                try_static<K>("MappedRaw", n, tail, rng, [&](const std::vector<K> &d) {
                    FILE *fp = fopen(raw.c_str(), "wb"); fwrite(d.data(), sizeof(K), d.size(), fp); fclose(fp);
                    pgm::MappedPGMIndex<K, 2, 1> p(raw, f); (void) p; });
                remove(f.c_str()); remove(raw.c_str());
            }
        }
}

#define C_STATIC(type, T)                                                                                              \
    for (size_t n = 1; n <= 6; ++n)                                                                                    \
        for (size_t tail = 0; tail <= std::min<size_t>(n, 2); ++tail)                                                  \
            for (size_t eps : {1, 7, 64}) {                                                                            \
                auto d = make_data<T>(n, tail, rng);                                                                   \
                auto *p = pgm_index_##type##_create(d.data(), d.size(), eps);                                          \
                g_out->begin("Try").num("x", g_x++).str("op", "build_static").str("cls", "CApi").str("K", #type)       \
                    .num("n", (long long) n).num("reserved_count", (long long) tail).str("out", p ? "ok" : "null").end(); \
                if (p) pgm_index_##type##_destroy(p);                                                                  \
            }

template<typename D> std::string layout_string(const D &d) {
    std::string s = "u" + std::to_string(Access::used_levels(d)) + ":";
    for (auto &lv : Access::levels(d)) {
        s += "[";
        for (auto &it : lv) s += std::to_string((long long) it.first) + (it.deleted() ? "x" : "=" + std::to_string((long long) it.second)) + ",";
        s += "]";
    }
    for (auto &p : Access::pgms(d)) s += "p" + std::to_string(Access::n(p)) + "/" + std::to_string(Access::segments(p).size());
    return s;
}

template<typename K, typename V>
void dynamic_family(Rng &rng) {
    using D = pgm::DynamicPGMIndex<K, V, pgm::PGMIndex<K, 2, 1>>;
    // (1) base: every value 2..255
    for (unsigned base = 2; base <= 255; ++base) {
        std::string o = outcome([&] { D d((uint8_t) base, uint8_t(1), uint8_t(2)); (void) d; });
        g_out->begin("Try").num("x", g_x++).str("op", "dynamic_base").num("base", base).str("out", o).end();
    }
    // (2) bulk load: an unsorted adjacent pair at each position (and sorted controls, with repeated keys)
    for (size_t n = 2; n <= 7; ++n)
        for (size_t bad = 0; bad < n; ++bad) {       // bad = 0: sorted control
            std::vector<std::pair<K, V>> pairs;
            std::vector<long long> ks;
            K cur = 10;
            for (size_t i = 0; i < n; ++i) { pairs.emplace_back(cur, V(i + 1)); cur = K(cur + K(rng.below(3))); }
            if (bad) { std::swap(pairs[bad - 1].first, pairs[bad].first); if (pairs[bad - 1].first == pairs[bad].first) pairs[bad].first = K(pairs[bad - 1].first - 1); }
            for (auto &p : pairs) ks.push_back((long long) p.first);
            std::string o = outcome([&] { D d(pairs.begin(), pairs.end(), uint8_t(2), uint8_t(1), uint8_t(2)); (void) d; });
            g_out->begin("Try").num("x", g_x++).str("op", "dynamic_bulk").raw("keys", jarr(ks)).str("out", o).end();
        }
    // (2a) longer bulk loads (they span several levels of the container): one unsorted adjacent pair at a random position
    for (size_t n : {12, 40, 130, 700})
        for (int rep = 0; rep < 4; ++rep) {
            std::vector<std::pair<K, V>> pairs;
            std::vector<long long> ks;
            K cur = 10;
            for (size_t i = 0; i < n; ++i) { pairs.emplace_back(cur, V(i % 200 + 1)); cur = K(cur + K(1 + rng.below(3))); }
            size_t bad = rep == 0 ? 0 : rep == 1 ? n - 1 : rep == 2 ? 1 : 1 + rng.below(n - 1);
            if (bad) std::swap(pairs[bad - 1].first, pairs[bad].first);
            for (auto &p : pairs) ks.push_back((long long) p.first);
            std::string o = outcome([&] { D d(pairs.begin(), pairs.end(), uint8_t(2), uint8_t(1), uint8_t(2)); (void) d; });
            g_out->begin("Try").num("x", g_x++).str("op", "dynamic_bulk").raw("keys", jarr(ks)).str("out", o).end();
            // and the reserved mapped value at that position of the sorted range
            if (bad) std::swap(pairs[bad - 1].first, pairs[bad].first);
            if (bad) pairs[bad].second = std::numeric_limits<V>::max();
            std::string o2 = outcome([&] { D d(pairs.begin(), pairs.end(), uint8_t(2), uint8_t(1), uint8_t(2)); (void) d; });
            g_out->begin("Try").num("x", g_x++).str("op", "dynamic_bulk_value").num("n", (long long) n).num("reserved_at", bad ? (long long) bad : -1).str("out", o2).end();
        }
    // (2b) bulk load: the reserved mapped value at each position of a sorted range (and controls without it)
    for (size_t n = 1; n <= 6; ++n)
        for (size_t pos = 0; pos <= n; ++pos) {        // pos = n: control without the reserved value
            std::vector<std::pair<K, V>> pairs;
            K cur = 10;
            for (size_t i = 0; i < n; ++i) { pairs.emplace_back(cur, i == pos ? std::numeric_limits<V>::max() : V(i + 1)); cur = K(cur + K(1 + rng.below(2))); }
            std::string o = outcome([&] { D d(pairs.begin(), pairs.end(), uint8_t(2), uint8_t(1), uint8_t(2)); (void) d; });
            g_out->begin("Try").num("x", g_x++).str("op", "dynamic_bulk_value").num("n", (long long) n).num("reserved_at", pos < n ? (long long) pos : -1).str("out", o).end();
        }
    // (3) the reserved mapped value at every point of a short history; the container must stay exactly as it was
    for (int rep = 0; rep < 6; ++rep) {
        D d(uint8_t(2), uint8_t(1), uint8_t(2));
        size_t len = 4 + rng.below(14);
        for (size_t i = 0; i <= len; ++i) {
            std::string before = layout_string(d);
            K key = K(rng.below(8));
            bool use_reserved = true;
            std::string o = outcome([&] { d.insert_or_assign(key, std::numeric_limits<V>::max()); });
            std::string after = layout_string(d);
            g_out->begin("Try").num("x", g_x++).str("op", "dynamic_put").num("reserved_value", use_reserved ? 1 : 0).num("step", (long long) i)
                .boolean("unchanged", before == after).str("out", o).end();
            // a valid update moves the history on
            if (rng.chance(1, 4)) d.erase(K(rng.below(8))); else d.insert_or_assign(K(rng.below(8)), V(1 + rng.below(100)));
            std::string o2 = outcome([&] { d.insert_or_assign(key, V(5)); });
            g_out->begin("Try").num("x", g_x++).str("op", "dynamic_put").num("reserved_value", 0).num("step", (long long) i)
                .boolean("unchanged", false).str("out", o2).end();
        }
        // (4) range(lo, hi) with lo > hi, lo = hi, lo < hi
        for (long long lo = 0; lo < 6; ++lo)
            for (long long hi = 0; hi < 6; ++hi) {
                std::string o = outcome([&] { auto r = d.range(K(lo), K(hi)); (void) r; });
                g_out->begin("Try").num("x", g_x++).str("op", "dynamic_range").num("lo", lo).num("hi", hi).str("out", o).end();
            }
    }
}

template<uint8_t Dm, typename T>
void md_family() {
#ifdef MORTON_ND_BMI2_ENABLED
    using M = pgm::MultidimensionalPGMIndex<Dm, T, 4>;
    constexpr int fieldbits = std::numeric_limits<T>::digits / Dm;
    // one coordinate with `bits` significant bits, at each position of a 3-point input and in each dimension
    for (int bits = fieldbits - 3; bits <= std::min(fieldbits + 2, (int) std::numeric_limits<T>::digits - 1); ++bits)
        for (size_t pos = 0; pos < 3; ++pos)
            for (size_t dim = 0; dim < Dm; ++dim) {
                std::vector<std::array<T, Dm>> raw(3);
                for (auto &p : raw) for (auto &c : p) c = 3;
                raw[pos][dim] = bits <= 0 ? 0 : (T(1) << (bits - 1)) | 1;
                std::string o;
                if constexpr (Dm == 2) { std::vector<std::tuple<T, T>> v; for (auto &p : raw) v.emplace_back(p[0], p[1]); o = outcome([&] { M m(v.begin(), v.end()); (void) m; }); }
                else if constexpr (Dm == 3) { std::vector<std::tuple<T, T, T>> v; for (auto &p : raw) v.emplace_back(p[0], p[1], p[2]); o = outcome([&] { M m(v.begin(), v.end()); (void) m; }); }
                else { std::vector<std::tuple<T, T, T, T>> v; for (auto &p : raw) v.emplace_back(p[0], p[1], p[2], p[3]); o = outcome([&] { M m(v.begin(), v.end()); (void) m; }); }
                g_out->begin("Try").num("x", g_x++).str("op", "md_build").num("D", Dm).num("fieldbits", fieldbits).num("bits", bits < 0 ? 0 : bits)
                    .num("pos", (long long) pos).num("dim", (long long) dim).str("out", o).end();
            }
#endif
}

template<typename X, typename Y>
void pla_family(Rng &rng) {
    using O = pgm::internal::OptimalPiecewiseLinearModel<X, Y>;
    // (1) epsilon -3..3
    if constexpr (std::is_signed_v<Y>)
        for (long long eps = -3; eps <= 3; ++eps) {
            std::string o = outcome([&] { O opt((Y) eps); (void) opt; });
            g_out->begin("Try").num("x", g_x++).str("op", "pla_epsilon").num("eps", eps).str("out", o).end();
        }
    // (2) a key that does not exceed its predecessor, at each position of a collinear run (which stays in one segment)
    for (size_t n = 2; n <= 6; ++n)
        for (size_t bad = 0; bad <= n; ++bad)          // bad = 0: increasing control; bad = i: x[i] := x[i-1] or x[i-1] - 1
            for (int dec = 0; dec < 2; ++dec) {
                std::vector<long long> xs;
                for (size_t i = 0; i < n; ++i) xs.push_back(10 + 2 * (long long) i);
                if (bad && bad < n) xs[bad] = xs[bad - 1] - dec;
                O opt((Y) 4);
                std::string o = "ok";
                long long failed_at = -1;
                for (size_t i = 0; i < n && o == "ok"; ++i) {
                    o = outcome([&] { opt.add_point((X) xs[i], (Y) (2 * i)); });
                    if (o != "ok") failed_at = (long long) i;
                }
                g_out->begin("Try").num("x", g_x++).str("op", "pla_add_point").raw("xs", jarr(xs)).str("out", o).num("failed_at", failed_at).end();
            }
    // (3) the same with segment breaks: a zigzag that no line follows within epsilon 0 or 1; a point that is not accepted
    //     starts the next segment (as make_segmentation does), and the key after it is again inside a segment
    for (long long eps = 0; eps <= 1; ++eps)
        for (size_t n = 3; n <= 9; ++n)
            for (size_t bad = 0; bad < n; ++bad)
                for (int dec = 0; dec < 2; ++dec) {
                    std::vector<long long> xs;
                    for (size_t i = 0; i < n; ++i) xs.push_back(10 + 3 * (long long) i + (long long) rng.below(2));
                    if (bad) xs[bad] = xs[bad - 1] - dec;
                    O opt((Y) eps);
                    std::string o = "ok";
                    long long failed_at = -1, breaks = 0;
                    for (size_t i = 0; i < n && o == "ok"; ++i) {
                        Y y = (Y) (i % 3 == 2 ? 40 + i : i % 3 == 1 ? 20 + i : i);
                        bool fits = true;
                        o = outcome([&] { fits = opt.add_point((X) xs[i], y); });
                        if (o == "ok" && !fits) { ++breaks; (void) opt.get_segment(); o = outcome([&] { opt.add_point((X) xs[i], y); }); }
                        if (o != "ok") failed_at = (long long) i;
                    }
                    g_out->begin("Try").num("x", g_x++).str("op", "pla_add_point").raw("xs", jarr(xs)).str("out", o).num("failed_at", failed_at).num("breaks", breaks).end();
                }
}

int main(int argc, char **argv) {
    Args a(argc, argv);
    install_crash_handlers();
    std::string outdir = a.get("out", ".");
    g_dir = outdir;
    Out out(outdir + "/reject.ndjson");
    open_outs().push_back(&out);
    g_out = &out;
    out.begin("Config").str("cls", "Reject").end();
    if (a.geti("only", -1) >= 0) { out.begin("End").end(); return 0; }
    Rng rng((uint64_t) a.geti("seed", 1));
    static_family<uint8_t>(rng); static_family<int8_t>(rng); static_family<uint16_t>(rng); static_family<int16_t>(rng);
    static_family<uint32_t>(rng); static_family<int32_t>(rng); static_family<uint64_t>(rng); static_family<int64_t>(rng);
    static_family<float>(rng); static_family<double>(rng);
    C_STATIC(int32, int32_t) C_STATIC(int64, int64_t) C_STATIC(uint32, uint32_t) C_STATIC(uint64, uint64_t)
#define C_DYNAMIC(type, T)                                                                                             \
    for (size_t n = 1; n <= 5; ++n)                                                                                    \
        for (size_t pos = 0; pos <= n; ++pos) {                                                                        \
            std::vector<pair_##type##_t> pairs(n);                                                                     \
            for (size_t i = 0; i < n; ++i) { pairs[i].first = T(10 + 2 * i); pairs[i].second = i == pos ? std::numeric_limits<T>::max() : T(i + 1); } \
            auto *p = dynamic_pgm_index_##type##_create(pairs.data(), n);                                              \
            g_out->begin("Try").num("x", g_x++).str("op", "dynamic_bulk_value").num("n", (long long) n).num("reserved_at", pos < n ? (long long) pos : -1) \
                .str("out", p ? "ok" : "invalid_argument").end();                                                      \
            if (p) dynamic_pgm_index_##type##_destroy(p);                                                              \
        }
    C_DYNAMIC(int32, int32_t) C_DYNAMIC(int64, int64_t) C_DYNAMIC(uint32, uint32_t) C_DYNAMIC(uint64, uint64_t)
    dynamic_family<uint32_t, uint32_t>(rng);
    dynamic_family<int64_t, uint16_t>(rng);
    dynamic_family<uint64_t, uint64_t>(rng);
    md_family<2, uint32_t>(); md_family<3, uint32_t>(); md_family<2, uint64_t>(); md_family<3, uint64_t>(); md_family<4, uint64_t>();
    pla_family<uint32_t, int64_t>(rng); pla_family<int64_t, int64_t>(rng); pla_family<uint64_t, size_t>(rng); pla_family<double, int64_t>(rng);
    out.begin("End").end();
    return 0;
}
