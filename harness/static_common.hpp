// Pieces shared by the recorders of the static index classes: key normalisation (offset / rank), fraction recovery,
// structured data generators and placement of the data in the key type.
#pragma once
#include "rec_common.hpp"
#include <cmath>
#include <limits>

using namespace vrec;

template<typename K> using Wide = std::conditional_t<std::is_floating_point_v<K>, long double, __int128>;

// ---- normalisation ---------------------------------------------------------------------------------------------
template<typename K>
struct Norm {
    bool offset = false;
    Wide<K> base = 0;
    std::vector<Wide<K>> universe;   // sorted distinct values (rank mode)
    static constexpr long long FAR_ABOVE = 20000, FAR_SENT = 30000, LIMIT = 16000;
    long long operator()(Wide<K> v) const {
        if (offset) {
            Wide<K> d = v - base;
            if (d < -1) return -1;
            if (d > LIMIT) return v == Wide<K>(sentinel()) ? FAR_SENT : FAR_ABOVE;
            return (long long) d;
        }
        auto it = std::lower_bound(universe.begin(), universe.end(), v);
        return (long long) (it - universe.begin());
    }
    static K sentinel() { return std::numeric_limits<K>::has_infinity ? std::numeric_limits<K>::infinity() : std::numeric_limits<K>::max(); }
};

// recover a fraction num/den (den <= maxden) equal to v, if there is one (continued fractions)
static bool to_fraction(long double v, long long maxden, long long &num, long long &den) {
    if (!(v >= 0) || v > 1e9L) return false;
    long double x = v;
    long long p0 = 0, q0 = 1, p1 = 1, q1 = 0;
    for (int i = 0; i < 64; ++i) {
        long double a = std::floor(x);
        long long ai = (long long) a;
        long long p2 = ai * p1 + p0, q2 = ai * q1 + q0;
        if (q2 > maxden) break;
        p0 = p1; q0 = q1; p1 = p2; q1 = q2;
        long double frac = x - a;
        if (frac < 1e-18L) break;
        x = 1 / frac;
    }
    if (q1 == 0) return false;
    num = p1; den = q1;
    return true;
}

struct Gen {
    std::string kind;
    std::vector<std::string> tags;
};

// ---- data generators (values as offsets from a base, later shifted to the key type) ---------------------------------
static std::vector<long long> gen_offsets(const std::string &kind, size_t n, size_t eps, Rng &rng, size_t chunks_hint = 0) {
    std::vector<long long> v;
    long long cur = 0;
    auto run_len = [&] {   // lengths around the search-range width 2*eps+2 and tiny ones
        switch (rng.below(6)) { case 0: return (size_t) 1; case 1: return (size_t) 2; case 2: return 2 * eps + 1 + rng.below(3);
                                case 3: return eps + rng.below(eps + 2); case 4: return 1 + rng.below(4); default: return 3 * eps + 3 + rng.below(5); }
    };
    if (kind == "runs") {                 // runs of duplicates separated by gaps of 1, 2 or many
        while (v.size() < n) {
            size_t r = run_len();
            for (size_t i = 0; i < r && v.size() < n; ++i) v.push_back(cur);
            cur += rng.chance(1, 3) ? 1 : rng.chance(1, 2) ? 2 : 2 + (long long) rng.below(9);
        }
    } else if (kind == "runs_uniform") {  // runs of 1..8 duplicates, gaps of 1..9
        while (v.size() < n) {
            size_t r = 1 + rng.below(8);
            for (size_t i = 0; i < r && v.size() < n; ++i) v.push_back(cur);
            cur += 1 + (long long) rng.below(9);
        }
    } else if (kind == "sawtooth") {      // points alternately eps above / below a line: tight on the band
        long long stepx = 1 + (long long) rng.below(4);
        for (size_t i = 0; i < n; ++i) {
            long long jitter = (i % 2 ? 1 : -1) * (long long) rng.below(std::min<size_t>(eps, 3) + 1);
            v.push_back(std::max<long long>(0, (long long) i * stepx + jitter + (long long) eps));
        }
        std::sort(v.begin(), v.end());
    } else if (kind == "collinear") {     // exactly collinear stretches with different slopes, joined by jumps
        while (v.size() < n) {
            long long st = 1 + (long long) rng.below(5);
            size_t len = 2 + rng.below(3 * eps + 6);
            for (size_t i = 0; i < len && v.size() < n; ++i) { v.push_back(cur); cur += st; }
            cur += (long long) rng.below(12);
        }
    } else if (kind == "steps") {         // dense stretch, long run, sparse stretch: steep and flat segments side by side
        while (v.size() < n) {
            int m = (int) rng.below(3);
            size_t len = 1 + rng.below(2 * eps + 6);
            for (size_t i = 0; i < len && v.size() < n; ++i) {
                v.push_back(cur);
                cur += m == 0 ? 1 : m == 1 ? 0 : 3 + (long long) rng.below(20);
            }
            cur += 1;
        }
    } else if (kind == "seams") {         // runs of duplicates that end at, start at, or straddle every multiple of n/c
        size_t c = chunks_hint > 1 ? chunks_hint : 2 + rng.below(19);
        size_t chunk = std::max<size_t>(1, n / c);
        std::vector<char> dup(n, 0);       // dup[i]: element i equals element i-1
        for (size_t b = chunk; b < n; b += chunk) {
            size_t before = rng.below(2 * eps + 6), after = rng.chance(1, 2) ? 0 : rng.below(2 * eps + 6);
            for (size_t i = (b > before ? b - before : 1); i < std::min(n, b + after); ++i) if (i) dup[i] = 1;
        }
        for (size_t i = 0; i < n; ++i) {
            if (i && !dup[i]) cur += 1 + (long long) rng.below(rng.chance(1, 4) ? 40 : 3);
            v.push_back(cur);
        }
    } else if (kind == "convex" || kind == "concave") {
        // smooth curves: gaps grow (convex) or shrink (concave) slowly, so that every point is a vertex of the band's hull:
        // the builder's hulls and tangent scans get long (with a large epsilon one segment holds hundreds of vertices)
        size_t d = 1 + rng.below(6);
        for (size_t i = 0; i < n; ++i) {
            v.push_back(cur);
            size_t j = kind == "convex" ? i : n - 1 - i;
            cur += 1 + (long long) (j / d);
        }
    } else if (kind == "curve_far_dense") {
        // a smooth stretch of about eps..3*eps keys with growing gaps, one far key, a dense run: long tangent scans at the far key
        while (v.size() < n) {
            size_t len = eps + 2 + rng.below(2 * eps + 2), g = 1 + rng.below(3);
            for (size_t i = 0; i < len && v.size() < n; ++i) { v.push_back(cur); cur += (long long) (1 + i / g); }
            cur += (long long) (len * len / g) + (long long) rng.below(50);
            if (v.size() < n) { v.push_back(cur); cur += 1; }
            size_t dense = 2 * eps + 4 + rng.below(2 * eps + 4);
            for (size_t i = 0; i < dense && v.size() < n; ++i) { v.push_back(cur); cur += (long long) rng.below(2); }
            cur += 1 + (long long) rng.below(5);
        }
    } else if (kind == "one_curve") {
        // one block of the shape above, scaled so that the whole array spans less than 12000 (offset normalisation: TLC can
        // then do the arithmetic of C03 on it): keys about k^2/g apart for k = 0..len (len = eps..1.5 eps: every one a hull
        // vertex), one key three times as far away as the stretch is long, then a dense run up to n
        size_t len = std::min<size_t>(n > 8 ? n / 2 : n, eps + rng.below(eps / 2 + 2));
        size_t g = std::max<size_t>(1, (4 * len * len + 9999) / 10000);
        for (size_t k = 0; k < len && v.size() < n; ++k) { v.push_back(cur); cur += (long long) std::max<size_t>(1, (2 * k + 1) / g); }
        cur += (long long) (3 * len * len / g) + (long long) rng.below(20);
        if (v.size() < n) { v.push_back(cur); cur += 1; }
        while (v.size() < n) { v.push_back(cur); cur += (long long) rng.below(2); }
    } else if (kind == "clusters_irregular" || kind == "clusters_big") {
        // a few dense but irregular clusters (gaps 0..3, short runs: a segment every few keys when epsilon is small) separated by
        // huge gaps: many segment keys that differ only in their low bits (one bucket of a succinct / table top level holds them all)
        size_t clusters = kind == "clusters_big" ? 3 + rng.below(3) : 4 + rng.below(12), per = std::max<size_t>(1, n / clusters);
        while (v.size() < n) {
            for (size_t i = 0; i < per && v.size() < n; ++i) { v.push_back(cur); cur += rng.chance(1, 5) ? 0 : (long long) rng.below(4) + (rng.chance(1, 6) ? 5 : 0); }
            cur += (1LL << rng.range(18, 26)) + (long long) rng.below(1000);
        }
    } else {                               // "random": uniform gaps 0..3
        for (size_t i = 0; i < n; ++i) { v.push_back(cur); cur += (long long) rng.below(4); }
    }
    return v;
}

// place the offsets in the key type: 0 around zero, 1 at lowest(), 2 ending at max-1, 3 wide spread (rank mode)
template<typename K>
std::vector<K> place(const std::vector<long long> &off, int where, Rng &rng, bool &wide) {
    using L = std::numeric_limits<K>;
    std::vector<K> d;
    wide = false;
    long long span = off.empty() ? 0 : off.back();
    if constexpr (std::is_floating_point_v<K>) {
        // dyadic grid m/4 (exactly representable); where==3: multiplied by a big power of two
        // zero and denormal keys are outside the properties' domain (a duplicate of 0 puts the next representable value,
        // a denormal, into the builder: the density n / gap is then not representable in the slope type)
        K scale = where == 3 ? K(1 << 20) : K(0.25);
        K basev = where == 1 ? K(-100000) : where == 2 ? K(5000) : where == 3 ? K(1 << 21) : K(16);
        for (auto o : off) d.push_back(basev + K(o) * scale);
        wide = where == 3;
        return d;
    } else {
        Wide<K> lo = (Wide<K>) L::lowest(), hi = (Wide<K>) L::max() - 1;
        Wide<K> room = hi - lo;
        if ((Wide<K>) span > room) {      // does not fit: compress (keeps order, merges values)
            for (auto o : off) d.push_back(K(lo + (Wide<K>) ((long double) o / (long double) span * (long double) room)));
            std::sort(d.begin(), d.end());
            return d;
        }
        if (where == 5) {
            // full span: the data starts near lowest() and ends at max-1, and the tail is a run of (max-2) followed by max-1
            // (a segment may then start exactly at the last key; bucket tables have to cover the whole key range)
            size_t nn = off.size();
            size_t tail = std::min<size_t>(nn > 2 ? nn - 2 : 0, 3 + rng.below(12));
            Wide<K> cur = lo + (rng.chance(1, 2) ? (Wide<K>) 0 : (Wide<K>) rng.below(3));
            size_t body = nn - tail - (nn > tail ? 1 : 0);
            Wide<K> stride = body > 1 ? (room - 4) / (Wide<K>) body : 1;
            if (stride < 1) stride = 1;
            for (size_t i = 0; i < body; ++i) {
                d.push_back(K(std::min<Wide<K>>(cur, hi - 2)));
                if (i + 1 < off.size() && off[i + 1] != off[i]) cur += 1 + (Wide<K>) (rng.next() % (uint64_t) std::min<Wide<K>>(stride, (Wide<K>) 1 << 60));
            }
            std::sort(d.begin(), d.end());
            for (size_t i = 0; i < tail; ++i) d.push_back(K(hi - 1));
            if (d.size() < nn || d.empty()) d.push_back(K(hi));
            wide = sizeof(K) >= 4;
            return d;
        }
        if (where == 4 && sizeof(K) >= 4) {
            // clustered: dense groups (steps of 0 or 1) separated by gaps of 2^j for random j: steep and flat segments side by side
            size_t big = 0;
            for (size_t i = 1; i < off.size(); ++i) big += off[i] - off[i - 1] > 1;
            int maxbits = (int) sizeof(K) * 8 - 2;
            while (maxbits > 8 && (long double) (big + 1) * std::pow(2.0L, maxbits) > (long double) room / 2) --maxbits;
            Wide<K> cur = lo + (rng.chance(1, 2) ? room / 2 : (Wide<K>) rng.below(1000));
            for (size_t i = 0; i < off.size(); ++i) {
                if (i) { long long dd = off[i] - off[i - 1]; cur += dd <= 1 ? (Wide<K>) dd : ((Wide<K>) 1 << rng.range(3, (uint64_t) maxbits)) + (Wide<K>) rng.below(7); }
                if (cur > hi) cur = hi;
                d.push_back(K(cur));
            }
            wide = true;
            return d;
        }
        Wide<K> basev;
        if (where == 1) basev = lo;
        else if (where == 2) basev = hi - span;
        else if (where == 3 && sizeof(K) >= 4) {
            // wide spread: multiply offsets so that the data covers a large part of the type
            Wide<K> mul = room / (Wide<K>) (span + 1) / 2;
            if (mul < 1) mul = 1;
            mul = (Wide<K>) 1 + (Wide<K>) (rng.next() % (uint64_t) std::min<Wide<K>>(mul, (Wide<K>) 1 << 40));
            for (auto o : off) d.push_back(K(lo + room / 4 + (Wide<K>) o * mul));
            wide = true;
            return d;
        } else {
            basev = std::is_signed_v<K> ? (Wide<K>) -4 : (Wide<K>) 0;
            if (basev + span > hi) basev = hi - span;
            if (sizeof(K) >= 4 && rng.chance(1, 2)) basev += 1000;
        }
        for (auto o : off) d.push_back(K(basev + o));
        return d;
    }
}

