// Recorder for C16: concurrent read-only queries on one object.
// Two identical objects of each class are built (single-threaded): the answers of the first to a probe set are the
// sequential reference; then 2..16 threads issue boundary and seeded query sequences against the SECOND, so far
// unqueried, object without synchronisation, each logging its own (query, answer) pairs into its own buffer; after the
// join the sequential answers of that object are computed again.
// Built with ThreadSanitizer (no OpenMP): a data race aborts the recording (Crash line, rejected by the trace spec).
// Validated by spec/ReadersTrace.tla.
#include "rec_common.hpp"
#include "access.hpp"

#include <atomic>
#include <functional>
#include <memory>
#include <thread>

using namespace vrec;

static Out *g_out;
static long long g_x = 0, g_only = -1;

static uint32_t mix(uint64_t h, uint64_t v) { h ^= v + 0x9e3779b97f4a7c15ull + (h << 6) + (h >> 2); return (uint32_t) (h % 1000000007ull); }

// `make` builds a fresh object and returns the function that answers probe q on it.  The reference answers come from a
// twin built the same way; the threads start on an object that has not answered a single query yet, so that state
// which a query path fills on first use (a memoised position, a lazily built table) is first touched concurrently.
template<typename Make>
void run_readers(const char *cls, size_t nprobes, int nthreads, uint64_t seed, Make &&make) {
    long long x = g_x++;
    if (g_only >= 0 && x != g_only) return;
    g_out->begin("Reset").num("x", x).str("cls", cls).num("threads", nthreads).num("probes", (long long) nprobes).raw("tags", jstrs({cls})).end();
    {
        auto twin = make();
        std::vector<long long> r;
        for (size_t q = 0; q < nprobes; ++q) r.push_back((long long) twin(q));
        g_out->begin("Sequential").str("when", "before").raw("answers", jarr(r)).end();
    }
    auto answer = make();
    std::vector<std::vector<std::vector<long long>>> logs((size_t) nthreads);
    std::atomic<int> ready{0};
    std::vector<std::thread> th;
    for (int t = 0; t < nthreads; ++t)
        th.emplace_back([&, t] {
            Rng rng(seed * 131 + (uint64_t) t);
            ready.fetch_add(1);
            while (ready.load() < nthreads) { }           // start together
            for (int i = 0; i < 400; ++i) {
                // the first queries of every thread are the boundary probes (the first ones of the probe set), in a
                // thread-specific rotation; then seeded ones
                size_t q = i < 12 ? (size_t) ((i + t) % 12) % nprobes : rng.below(nprobes);
                logs[(size_t) t].push_back({(long long) q, (long long) answer(q)});
            }
        });
    for (auto &t : th) t.join();
    for (int t = 0; t < nthreads; ++t) g_out->begin("Thread").num("tid", t).raw("log", jarr2(logs[(size_t) t])).end();
    std::vector<long long> r;
    for (size_t q = 0; q < nprobes; ++q) r.push_back((long long) answer(q));
    g_out->begin("Sequential").str("when", "after").raw("answers", jarr(r)).end();
    g_out->begin("End").end();
}

int main(int argc, char **argv) {
    Args a(argc, argv);
    install_crash_handlers();
    std::string outdir = a.get("out", ".");
    std::string scratch = a.get("scratch", outdir);
    g_only = a.geti("only", -1);
    Out out(outdir + "/readers.ndjson");
    open_outs().push_back(&out);
    g_out = &out;
    out.begin("Config").str("cls", "Readers").end();
    Rng rng((uint64_t) a.geti("seed", 1));
    bool quick = a.get("tier", "quick") == "quick";

    std::vector<uint32_t> data;
    // gaps 0..4, and every few hundred elements a run of 20..300 equal keys (longer than any search window: the multiset
    // queries then gallop, the segmentation feeds guard points, buckets and levels hold repeated starts)
    std::vector<uint32_t> run_keys;
    { uint32_t cur = 100;
      while (data.size() < 20000) {
          if (rng.chance(1, 300)) { size_t len = 20 + rng.below(281); run_keys.push_back(cur); for (size_t j = 0; j < len; ++j) data.push_back(cur); cur += 1 + (uint32_t) rng.below(4); }
          else { data.push_back(cur); cur += (uint32_t) rng.below(5); }
      } }
    std::vector<uint32_t> probes{0u, data.front() - 1, data.front(), data.front() + 1, data.back() - 1, data.back(), data.back() + 1,
                                 std::numeric_limits<uint32_t>::max() - 1, std::numeric_limits<uint32_t>::max() - 2, data[data.size() / 2], 1u, data.back() + 1000};
    for (size_t i = 0; i < run_keys.size() && i < 60; ++i) { probes.push_back(run_keys[i]); probes.push_back(run_keys[i] + 1); probes.push_back(run_keys[i] - 1); }
    for (int i = 0; i < 600; ++i) probes.push_back(i % 7 == 0 ? (uint32_t) rng.next() : data[rng.below(data.size())] + (uint32_t) rng.below(2));
    std::vector<int> thread_counts = quick ? std::vector<int>{2, 5, 16} : std::vector<int>{2, 3, 4, 7, 8, 12, 16};
    auto pos_hash = [](const pgm::ApproxPos &r) { return mix(mix(mix(7, r.pos), r.lo), r.hi); };

    using Fn = std::function<uint64_t(size_t)>;
    // Multidim / Dynamic inputs are fixed before the loop so that twins are identical
    std::vector<std::tuple<uint32_t, uint32_t>> pts;
    for (int i = 0; i < 3000; ++i) pts.emplace_back((uint32_t) rng.below(64), (uint32_t) rng.below(64));
    pts.emplace_back(0u, 0u); pts.emplace_back(63u, 63u);
    struct Upd { uint32_t k; bool erase; uint32_t v; };
    std::vector<Upd> upds;
    for (int i = 0; i < 3000; ++i) { uint32_t k = (uint32_t) rng.below(1500); upds.push_back({k, rng.chance(1, 4), (uint32_t) i + 1}); }
    int file_no = 0;

    for (int nt : thread_counts) {
        run_readers("PGMIndex", probes.size(), nt, rng.next(), [&]() -> Fn {
            auto idx = std::make_shared<pgm::PGMIndex<uint32_t, 8, 4>>(data.begin(), data.end());
            return [idx, &probes, pos_hash](size_t q) { return pos_hash(idx->search(probes[q])); }; });
        run_readers("OneLevelPGMIndex", probes.size(), nt, rng.next(), [&]() -> Fn {
            auto idx = std::make_shared<pgm::PGMIndex<uint32_t, 4, 0>>(data.begin(), data.end());
            return [idx, &probes, pos_hash](size_t q) { return pos_hash(idx->search(probes[q])); }; });
        run_readers("BinaryRoutedPGMIndex", probes.size(), nt, rng.next(), [&]() -> Fn {
            auto idx = std::make_shared<pgm::PGMIndex<uint32_t, 2, 64>>(data.begin(), data.end());
            return [idx, &probes, pos_hash](size_t q) { return pos_hash(idx->search(probes[q])); }; });
        run_readers("Compressed", probes.size(), nt, rng.next(), [&]() -> Fn {
            auto idx = std::make_shared<pgm::CompressedPGMIndex<uint32_t, 8, 4>>(data.begin(), data.end());
            return [idx, &probes, pos_hash](size_t q) { return pos_hash(idx->search(probes[q])); }; });
        run_readers("Bucketing", probes.size(), nt, rng.next(), [&]() -> Fn {
            auto idx = std::make_shared<pgm::BucketingPGMIndex<uint32_t, 8, 64>>(data.begin(), data.end());
            return [idx, &probes, pos_hash](size_t q) { return pos_hash(idx->search(probes[q])); }; });
        run_readers("Bucketing100", probes.size(), nt, rng.next(), [&]() -> Fn {
            auto idx = std::make_shared<pgm::BucketingPGMIndex<uint32_t, 8, 100>>(data.begin(), data.end());
            return [idx, &probes, pos_hash](size_t q) { return pos_hash(idx->search(probes[q])); }; });
        run_readers("EliasFano", probes.size(), nt, rng.next(), [&]() -> Fn {
            auto idx = std::make_shared<pgm::EliasFanoPGMIndex<uint32_t, 8>>(data.begin(), data.end());
            return [idx, &probes, pos_hash](size_t q) { return pos_hash(idx->search(probes[q])); }; });
        run_readers("Mapped", probes.size(), nt, rng.next(), [&]() -> Fn {
            std::string f = scratch + "/readers.mapped." + std::to_string(file_no++) + ".pgm";
            auto idx = std::make_shared<pgm::MappedPGMIndex<uint32_t, 8>>(data.begin(), data.end(), f);
            remove(f.c_str());          // the mapping stays valid; nothing is left behind
            return [idx, &probes](size_t q) {
                uint32_t k = probes[q];
                return (uint64_t) mix(mix(mix(3, (uint64_t) (idx->lower_bound(k) - idx->begin())), (uint64_t) (idx->upper_bound(k) - idx->begin())), idx->count(k) * 2 + idx->contains(k)); }; });
#ifdef MORTON_ND_BMI2_ENABLED
        run_readers("Multidim", 400, nt, rng.next(), [&]() -> Fn {
            auto idx = std::make_shared<pgm::MultidimensionalPGMIndex<2, uint32_t, 8>>(pts.begin(), pts.end());
            return [idx](size_t q) {
                // probe 0 is the origin, probe 1 the far corner
                uint32_t ax = q == 1 ? 63u : (uint32_t) (q * 7 % 64), ay = q == 1 ? 63u : (uint32_t) (q * 13 % 64);
                uint64_t h = idx->contains({ax, ay}) ? 1 : 0;
                size_t c = 0;
                for (auto it = idx->range({ax, ay}, {std::min(63u, ax + 9), std::min(63u, ay + 5)}); it != idx->end() && c < 5000; ++it, ++c) h = mix(h, std::get<0>(*it) * 64 + std::get<1>(*it));
                return (uint64_t) mix(h, c); }; });
#endif
        run_readers("Dynamic", 500, nt, rng.next(), [&]() -> Fn {
            auto d = std::make_shared<pgm::DynamicPGMIndex<uint32_t, uint32_t, pgm::PGMIndex<uint32_t, 4, 2>>>(uint8_t(4), uint8_t(1), uint8_t(2));
            for (auto &u : upds) { if (u.erase) d->erase(u.k); else d->insert_or_assign(u.k, u.v); }
            return [d](size_t q) {
                uint32_t k = (uint32_t) (q * 3);
                auto it = d->find(k);
                uint64_t h = it == d->end() ? 0 : it->second;
                h = mix(h, d->count(k));
                auto lb = d->lower_bound(k);
                int c = 0;
                for (; lb != d->end() && c < 12; ++lb, ++c) h = mix(h, (uint64_t) lb->first * 100003 + lb->second);
                for (auto &kv : d->range(k, k + 20)) h = mix(h, (uint64_t) kv.first * 31 + kv.second);
                h = mix(h, d->size() * 2 + (d->empty() ? 1 : 0));
                int c2 = 0;
                for (auto b = d->begin(); b != d->end() && c2 < 5; ++b, ++c2) h = mix(h, b->first);
                return (uint64_t) mix(h, 1); }; });
    }
    out.flush();
    return 0;
}
