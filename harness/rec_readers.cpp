// Recorder for C16: concurrent read-only queries on one object.
// One object of each class is built (single-threaded), its answers to a probe set are computed sequentially, then
// 2..16 threads issue seeded query sequences against the SAME object without synchronisation, each logging its own
// (query, answer) pairs into its own buffer; after the join the sequential answers are computed again.
// Built with ThreadSanitizer (no OpenMP): a data race aborts the recording (Crash line, rejected by the trace spec).
// Validated by spec/ReadersTrace.tla.
#include "rec_common.hpp"
#include "access.hpp"

#include <atomic>
#include <memory>
#include <thread>

using namespace vrec;

static Out *g_out;
static long long g_x = 0, g_only = -1;

static uint32_t mix(uint64_t h, uint64_t v) { h ^= v + 0x9e3779b97f4a7c15ull + (h << 6) + (h >> 2); return (uint32_t) (h % 1000000007ull); }

template<typename Answer>
void run_readers(const char *cls, size_t nprobes, int nthreads, uint64_t seed, Answer &&answer) {
    long long x = g_x++;
    if (g_only >= 0 && x != g_only) return;
    g_out->begin("Reset").num("x", x).str("cls", cls).num("threads", nthreads).num("probes", (long long) nprobes).raw("tags", jstrs({cls})).end();
    auto sequential = [&] { std::vector<long long> r; for (size_t q = 0; q < nprobes; ++q) r.push_back((long long) answer(q)); return r; };
    g_out->begin("Sequential").str("when", "before").raw("answers", jarr(sequential())).end();
    std::vector<std::vector<std::vector<long long>>> logs((size_t) nthreads);
    std::atomic<int> ready{0};
    std::vector<std::thread> th;
    for (int t = 0; t < nthreads; ++t)
        th.emplace_back([&, t] {
            Rng rng(seed * 131 + (uint64_t) t);
            ready.fetch_add(1);
            while (ready.load() < nthreads) { }           // start together
            for (int i = 0; i < 400; ++i) {
                size_t q = rng.below(nprobes);
                logs[(size_t) t].push_back({(long long) q, (long long) answer(q)});
            }
        });
    for (auto &t : th) t.join();
    for (int t = 0; t < nthreads; ++t) g_out->begin("Thread").num("tid", t).raw("log", jarr2(logs[(size_t) t])).end();
    g_out->begin("Sequential").str("when", "after").raw("answers", jarr(sequential())).end();
    g_out->begin("End").end();
}

int main(int argc, char **argv) {
    Args a(argc, argv);
    install_crash_handlers();
    std::string outdir = a.get("out", ".");
    std::string scratch = a.get("scratch", outdir);
    g_only = a.geti("only", -1);
    Out out(outdir + "/readers.ndjson");
    open_outs().push_back(&out);
    g_out = &out;
    out.begin("Config").str("cls", "Readers").end();
    Rng rng((uint64_t) a.geti("seed", 1));
    bool quick = a.get("tier", "quick") == "quick";

    std::vector<uint32_t> data;
    { uint32_t cur = 100; for (int i = 0; i < 20000; ++i) { data.push_back(cur); cur += (uint32_t) rng.below(5); } }
    std::vector<uint32_t> probes;
    for (int i = 0; i < 600; ++i) probes.push_back(i % 7 == 0 ? (uint32_t) rng.next() : data[rng.below(data.size())] + (uint32_t) rng.below(2));
    std::vector<int> thread_counts = quick ? std::vector<int>{2, 5, 16} : std::vector<int>{2, 3, 4, 7, 8, 12, 16};
    auto pos_hash = [](const pgm::ApproxPos &r) { return mix(mix(mix(7, r.pos), r.lo), r.hi); };

    for (int nt : thread_counts) {
        { pgm::PGMIndex<uint32_t, 8, 4> idx(data.begin(), data.end());
          run_readers("PGMIndex", probes.size(), nt, rng.next(), [&](size_t q) { return pos_hash(idx.search(probes[q])); }); }
        { pgm::PGMIndex<uint32_t, 4, 0> idx(data.begin(), data.end());
          run_readers("OneLevelPGMIndex", probes.size(), nt, rng.next(), [&](size_t q) { return pos_hash(idx.search(probes[q])); }); }
        { pgm::CompressedPGMIndex<uint32_t, 8, 4> idx(data.begin(), data.end());
          run_readers("Compressed", probes.size(), nt, rng.next(), [&](size_t q) { return pos_hash(idx.search(probes[q])); }); }
        { pgm::BucketingPGMIndex<uint32_t, 8, 64> idx(data.begin(), data.end());
          run_readers("Bucketing", probes.size(), nt, rng.next(), [&](size_t q) { return pos_hash(idx.search(probes[q])); }); }
        { pgm::EliasFanoPGMIndex<uint32_t, 8> idx(data.begin(), data.end());
          run_readers("EliasFano", probes.size(), nt, rng.next(), [&](size_t q) { return pos_hash(idx.search(probes[q])); }); }
        { std::string f = scratch + "/readers.mapped.pgm";
          { pgm::MappedPGMIndex<uint32_t, 8> idx(data.begin(), data.end(), f);
            run_readers("Mapped", probes.size(), nt, rng.next(), [&](size_t q) {
                uint32_t k = probes[q];
                return mix(mix(mix(3, (uint64_t) (idx.lower_bound(k) - idx.begin())), (uint64_t) (idx.upper_bound(k) - idx.begin())), idx.count(k) * 2 + idx.contains(k)); }); }
          remove(f.c_str()); }
#ifdef MORTON_ND_BMI2_ENABLED
        { std::vector<std::tuple<uint32_t, uint32_t>> pts;
          for (int i = 0; i < 3000; ++i) pts.emplace_back((uint32_t) rng.below(64), (uint32_t) rng.below(64));
          pgm::MultidimensionalPGMIndex<2, uint32_t, 8> idx(pts.begin(), pts.end());
          run_readers("Multidim", 400, nt, rng.next(), [&](size_t q) {
              uint32_t ax = (uint32_t) (q * 7 % 64), ay = (uint32_t) (q * 13 % 64);
              uint64_t h = idx.contains({ax, ay}) ? 1 : 0;
              size_t c = 0;
              for (auto it = idx.range({ax, ay}, {std::min(63u, ax + 9), std::min(63u, ay + 5)}); it != idx.end() && c < 5000; ++it, ++c) h = mix(h, std::get<0>(*it) * 64 + std::get<1>(*it));
              return mix(h, c); }); }
#endif
        { pgm::DynamicPGMIndex<uint32_t, uint32_t, pgm::PGMIndex<uint32_t, 4, 2>> d(uint8_t(4), uint8_t(1), uint8_t(2));
          for (int i = 0; i < 3000; ++i) { uint32_t k = (uint32_t) rng.below(1500); if (rng.chance(1, 4)) d.erase(k); else d.insert_or_assign(k, (uint32_t) i + 1); }
          run_readers("Dynamic", 500, nt, rng.next(), [&](size_t q) {
              uint32_t k = (uint32_t) (q * 3);
              auto it = d.find(k);
              uint64_t h = it == d.end() ? 0 : it->second;
              h = mix(h, d.count(k));
              auto lb = d.lower_bound(k);
              int c = 0;
              for (; lb != d.end() && c < 12; ++lb, ++c) h = mix(h, (uint64_t) lb->first * 100003 + lb->second);
              for (auto &kv : d.range(k, k + 20)) h = mix(h, (uint64_t) kv.first * 31 + kv.second);
              return mix(h, 1); }); }
    }
    out.flush();
    return 0;
}
