// Recorder for CompressedPGMIndex (C08), BucketingPGMIndex (C09), EliasFanoPGMIndex (C10).
// Same trace format as rec_static.cpp (validated by spec/StaticTrace.tla); class-specific observations:
//   Bucketing : segment keys, step, top-level table; per query the bucket, its slice and the chosen segment
//   EliasFano : segment keys; per query the result (index, value) of the private predecessor search
//   Compressed: per level keys and decoded intercepts (tier B), the result only at tier A
#include "rec_common.hpp"
#include <omp.h>
#include "access.hpp"
#include "static_common.hpp"

#include <memory>

#ifndef PART
#define PART 0
#endif

using pgm::verif::Access;

static std::string g_outdir;
static long long g_only = -1;
static long long g_exec_counter = 0;
static int g_shards = 4;
static std::vector<std::unique_ptr<Out>> g_files;

static Out &shard_file(long long x) {
    if (g_files.empty())
        for (int i = 0; i < g_shards; ++i) {
            g_files.emplace_back(new Out(g_outdir + "/variants_p" + std::to_string(PART) + "_s" + std::to_string(i) + ".ndjson"));
            open_outs().push_back(g_files.back().get());
            g_files.back()->begin("Config").str("cls", "variants").num("part", PART).end();
        }
    return *g_files[size_t(x) % g_files.size()];
}

struct VPlan {
    std::string kind;
    size_t n;
    int where;
    std::vector<std::string> tags;
    uint64_t seed;
    std::vector<long long> explicit_offsets;
    int chunks = 0;          // > 1: the first-level segmentation is forced into this many chunks (hook H1); < 0: the library chunks by itself into -chunks
};

template<typename K>
std::vector<K> make_queries(const std::vector<K> &data, Rng &rng, size_t budget, int chunks = 0) {
    using L = std::numeric_limits<K>;
    std::vector<K> queries;
    const size_t n = data.size();
    auto add = [&](Wide<K> v) { if (v >= (Wide<K>) L::lowest() && v < (Wide<K>) L::max()) queries.push_back(K(v)); };
    add((Wide<K>) L::lowest()); add((Wide<K>) L::max() - 1);
    add((Wide<K>) data.front() - 1); add((Wide<K>) data.front() - 2); add((Wide<K>) data.back() + 1); add((Wide<K>) data.back() + 2); add((Wide<K>) data.back());
    add((Wide<K>) data.front()); add((Wide<K>) 0);
    std::vector<size_t> firsts;
    for (size_t i = 0; i < n; ++i) if (i == 0 || data[i] != data[i - 1]) firsts.push_back(i);
    std::vector<size_t> picks;
    if (firsts.size() <= budget) picks = firsts;
    else for (size_t j = 0; j < budget; ++j) picks.push_back(firsts[rng.below(firsts.size())]);
    {   // the keys around the widest gaps (ends and starts of clusters: last entry of a bucket / slice, first of the next)
        std::vector<std::pair<Wide<K>, size_t>> gaps;
        for (size_t i = 0; i + 1 < n; ++i) if ((Wide<K>) data[i + 1] - (Wide<K>) data[i] > 4096) gaps.emplace_back((Wide<K>) data[i + 1] - (Wide<K>) data[i], i);
        std::sort(gaps.rbegin(), gaps.rend());
        for (size_t g = 0; g < gaps.size() && g < 12; ++g)
            for (long long d = -3; d <= 1; ++d) { long long i = (long long) gaps[g].second + d; if (i >= 0 && (size_t) i < n) picks.push_back((size_t) i); }
    }
    if (chunks > 1 && n / (size_t) chunks > 0)      // every key next to a chunk boundary
        for (size_t b = n / (size_t) chunks; b < n; b += n / (size_t) chunks)
            for (long long d = -2; d <= 1; ++d) if ((long long) b + d >= 0 && b + d < n) picks.push_back(size_t(b + d));
    for (size_t i : picks) {
        add((Wide<K>) data[i]); add((Wide<K>) data[i] + 1); add((Wide<K>) data[i] - 1);
        size_t nx = std::upper_bound(data.begin(), data.end(), data[i]) - data.begin();
        if (nx < n && data[nx] - data[i] > 3) add((Wide<K>) data[i] + ((Wide<K>) data[nx] - (Wide<K>) data[i]) / 2);
    }
    for (int s = 8; s < (int) sizeof(K) * 8; s += 7) { add((Wide<K>) data.back() + ((Wide<K>) 1 << s)); add((Wide<K>) data.front() - ((Wide<K>) 1 << s)); }
    std::sort(queries.begin(), queries.end());
    queries.erase(std::unique(queries.begin(), queries.end()), queries.end());
    return queries;
}

// An answer may depend neither on the queries made before it nor on there having been any: the query plan is the probe
// set, the same query twice in a row and early ones again, and then a few boundary queries each answered as the FIRST
// query of a copy that was taken of the index before it answered anything.
template<typename P, typename K>
std::vector<std::pair<K, P *>> query_plan(P *idx, const std::vector<K> &queries, const std::vector<K> &data, Rng &rng, std::vector<std::unique_ptr<P>> &fresh) {
    std::vector<std::pair<K, P *>> plan;
    for (auto q : queries) plan.emplace_back(q, idx);
    if (queries.empty()) return plan;
    plan.emplace_back(queries.back(), idx); plan.emplace_back(queries.front(), idx); plan.emplace_back(queries[queries.size() / 2], idx);
    if (data.size() <= 3000) {
        std::vector<K> fq{queries.front(), queries.back(), data.front(), data.back(), K(0), queries[rng.below(queries.size())]};
        for (auto q : fq)
            if (std::find(queries.begin(), queries.end(), q) != queries.end()) { fresh.emplace_back(new P(*idx)); plan.emplace_back(q, fresh.back().get()); }
    }
    return plan;
}

template<typename K>
Norm<K> make_norm(const std::vector<K> &data, const std::vector<K> &queries, bool wide, const std::vector<K> &extra) {
    Norm<K> nm;
    nm.offset = !wide && (long double) data.back() - (long double) data.front() < 12000 && data.size() < 4000;
    if (nm.offset) nm.base = (Wide<K>) data.front() - 2;
    else {
        std::vector<Wide<K>> u;
        for (auto v : data) u.push_back((Wide<K>) v);
        for (auto v : queries) u.push_back((Wide<K>) v);
        for (auto v : extra) u.push_back((Wide<K>) v);
        u.push_back((Wide<K>) Norm<K>::sentinel());
        std::sort(u.begin(), u.end());
        u.erase(std::unique(u.begin(), u.end()), u.end());
        nm.universe = std::move(u);
    }
    return nm;
}

static long long clampll(size_t v) { return (long long) std::min<size_t>(v, 2000000000u); }

// ---- Bucketing ------------------------------------------------------------------------------------------------------
template<typename K, size_t Eps, size_t T, uint8_t Bits>
struct BucketingProbe : pgm::BucketingPGMIndex<K, Eps, T, Bits> {
    using Base = pgm::BucketingPGMIndex<K, Eps, T, Bits>;
    using Base::Base;
    const auto &segs() const { return this->segments; }
    const auto &top() const { return this->top_level; }
    K stepv() const { return this->step; }
    static constexpr bool pow2() { return Base::pow_two_top_level; }
    K firstk() const { return this->first_key; }
    K lastk() const { return this->last_key; }
    size_t seg_index(const K &key) const { return size_t(this->segment_for_key(key) - this->segments.begin()); }
    size_t bucket(const K &key) const {
        if constexpr (Base::pow_two_top_level) return size_t((key - this->first_key) >> (sizeof(K) * CHAR_BIT - BIT_WIDTH(T) + 1));
        else return size_t((key - this->first_key) / this->step);
    }
};

template<typename K, size_t Eps, size_t T, uint8_t Bits>
void run_bucketing(const VPlan &pl) {
    long long x = g_exec_counter++;
    if (g_only >= 0 && x != g_only) return;
    using P = BucketingProbe<K, Eps, T, Bits>;
    Rng rng(pl.seed);
    Out &out = shard_file(x);
    std::vector<long long> off = pl.explicit_offsets.empty() ? gen_offsets(pl.kind, pl.n, Eps, rng, std::abs(pl.chunks) > 1 ? (size_t) std::abs(pl.chunks) : 0) : pl.explicit_offsets;
    bool wide = false;
    std::vector<K> data = place<K>(off, pl.where, rng, wide);
    const size_t n = data.size();
    std::unique_ptr<P> idx;
    pgm::verif::forced_parallelism = pl.chunks > 1 ? pl.chunks : 0;
    pgm::verif::forced_min_n = data.size();
    std::string res = outcome([&] { idx.reset(new P(data.begin(), data.end())); });
    pgm::verif::forced_parallelism = 0;
    auto queries = make_queries<K>(data, rng, n <= 40 ? n : 40, std::abs(pl.chunks));
    if (idx) {
        // the keys on and next to bucket boundaries (first_key + i * bucket width): the first and the last key of a bucket, and a
        // segment that starts exactly on a boundary, are where the bucket arithmetic and the table fill have to agree
        Wide<K> fk = (Wide<K>) idx->firstk(), lk = (Wide<K>) idx->lastk();
        Wide<K> width = P::pow2() ? (Wide<K>) 1 << (sizeof(K) * CHAR_BIT - BIT_WIDTH(T) + 1) : (Wide<K>) idx->stepv();
        if (width > 0)
            for (size_t b = 1, used = 0; b <= T + 1 && used < 48; ++b) {
                Wide<K> v = fk + (Wide<K>) b * width;
                if (v > lk + 1) break;
                if (T > 48 && rng.below(T) >= 48 && b > 2 && v + width <= lk) continue;      // a sample of the inner boundaries
                ++used;
                for (long long d = -1; d <= 1; ++d) { Wide<K> q = v + d; if (q >= (Wide<K>) std::numeric_limits<K>::lowest() && q < (Wide<K>) std::numeric_limits<K>::max()) queries.push_back(K(q)); }
            }
        std::sort(queries.begin(), queries.end());
        queries.erase(std::unique(queries.begin(), queries.end()), queries.end());
    }
    std::vector<K> extra;
    if (idx) for (auto &s : idx->segs()) extra.push_back(s.key);
    auto nm = make_norm<K>(data, queries, wide, extra);
    out.begin("Reset").num("x", x).str("cls", "Bucketing").str("prop", "C09").str("K", type_name<K>()).str("F", "f32")
        .num("eps", Eps).num("epsrec", 0).str("route", "bucket").str("norm", nm.offset ? "offset" : "rank").num("chunks", std::abs(pl.chunks) > 1 ? std::abs(pl.chunks) : 1)
        .num("n", (long long) n).num("sent", nm((Wide<K>) Norm<K>::sentinel())).num("T", T).num("bits", Bits)
        .str("gen", pl.kind).raw("tags", jstrs(pl.tags)).num("seed", (long long) (pl.seed & 0x7fffffff)).end();
    std::vector<long long> nd;
    for (auto v : data) nd.push_back(nm((Wide<K>) v));
    auto &o = out.begin("Build").raw("data", jarr(nd)).str("out", res);
    if (res == "ok") {
        std::vector<long long> sk, tl;
        for (auto &s : idx->segs()) sk.push_back(nm((Wide<K>) s.key));
        for (size_t i = 0; i < idx->top().size(); ++i) tl.push_back((long long) idx->top()[i]);
        o.num("height", 1).num("nsegs", (long long) idx->segments_count()).raw("levels", "[]").raw("skeys", jarr(sk)).raw("top", jarr(tl));
    }
    o.end();
    if (res != "ok") { out.begin("End").end(); return; }
    std::vector<std::unique_ptr<P>> fresh;
    for (auto &qp : query_plan(idx.get(), queries, data, rng, fresh)) {
        K q = qp.first;
        P *ix = qp.second;
        auto r = ix->search(q);
        long long bk = -1, seg = -1, s0 = -1, s1 = -1;
        if (q >= ix->firstk() && q <= ix->lastk()) {
            bk = (long long) ix->bucket(q);
            if (size_t(bk) + 1 < ix->top().size()) {
                s0 = (long long) ix->top()[bk]; s1 = (long long) ix->top()[bk + 1];
                seg = (long long) ix->seg_index(q);
                if (seg > 2000000000LL) seg = -2;   // prev(begin): wrapped
            }
        }
        out.begin("Search").num("q", nm((Wide<K>) q)).num("pos", clampll(r.pos)).num("lo", clampll(r.lo)).num("hi", clampll(r.hi))
            .raw("route", "[]").num("bk", bk).num("seg", seg).raw("sl", jarr({s0, s1})).raw("pr", "[]").end();
    }
    out.begin("End").end();
}

// ---- Elias-Fano -----------------------------------------------------------------------------------------------------
template<typename K, size_t Eps>
void run_eliasfano(const VPlan &pl) {
    long long x = g_exec_counter++;
    if (g_only >= 0 && x != g_only) return;
    using P = pgm::EliasFanoPGMIndex<K, Eps>;
    Rng rng(pl.seed);
    Out &out = shard_file(x);
    std::vector<long long> off = pl.explicit_offsets.empty() ? gen_offsets(pl.kind, pl.n, Eps, rng, std::abs(pl.chunks) > 1 ? (size_t) std::abs(pl.chunks) : 0) : pl.explicit_offsets;
    bool wide = false;
    std::vector<K> data = place<K>(off, pl.where, rng, wide);
    const size_t n = data.size();
    std::unique_ptr<P> idx;
    pgm::verif::forced_parallelism = pl.chunks > 1 ? pl.chunks : 0;
    pgm::verif::forced_min_n = data.size();
    std::string res = outcome([&] { idx.reset(new P(data.begin(), data.end())); });
    pgm::verif::forced_parallelism = 0;
    auto queries = make_queries<K>(data, rng, n <= 40 ? n : 40, std::abs(pl.chunks));
    // the segment keys, as the one-level PGMIndex builds them (the class keeps them only in Elias-Fano coded form)
    std::vector<K> skeys;
    {
        struct OneLevel : pgm::PGMIndex<K, Eps, 0, float> { using pgm::PGMIndex<K, Eps, 0, float>::PGMIndex; const auto &segs() const { return this->segments; } };
        pgm::verif::forced_parallelism = pl.chunks > 1 ? pl.chunks : 0;     // chunked exactly as the index above was
        OneLevel ol(data.begin(), data.end());
        pgm::verif::forced_parallelism = 0;
        for (auto &s : ol.segs()) skeys.push_back(s.key);
    }
    auto nm = make_norm<K>(data, queries, wide, skeys);
    out.begin("Reset").num("x", x).str("cls", "EliasFano").str("prop", "C10").str("K", type_name<K>()).str("F", "f32")
        .num("eps", Eps).num("epsrec", 0).str("route", "eliasfano").str("norm", nm.offset ? "offset" : "rank").num("chunks", std::abs(pl.chunks) > 1 ? std::abs(pl.chunks) : 1)
        .num("n", (long long) n).num("sent", nm((Wide<K>) Norm<K>::sentinel())).num("T", 0).num("bits", 0)
        .str("gen", pl.kind).raw("tags", jstrs(pl.tags)).num("seed", (long long) (pl.seed & 0x7fffffff)).end();
    std::vector<long long> nd;
    for (auto v : data) nd.push_back(nm((Wide<K>) v));
    auto &o = out.begin("Build").raw("data", jarr(nd)).str("out", res);
    if (res == "ok") {
        std::vector<long long> sk;
        for (auto v : skeys) sk.push_back(nm((Wide<K>) v));
        auto &ef = Access::ef(*idx);
        o.num("height", 1).num("nsegs", (long long) idx->segments_count()).raw("levels", "[]").raw("skeys", jarr(sk))
            .raw("top", jarr({(long long) ef.wl, (long long) std::min<size_t>(ef.size(), 2000000000u), (long long) ef.low.size()}));
    }
    o.end();
    if (res != "ok") { out.begin("End").end(); return; }
    K first_key = Access::ef_first_key(*idx);
    std::vector<std::unique_ptr<P>> fresh;
    for (auto &qp : query_plan(idx.get(), queries, data, rng, fresh)) {
        K q = qp.first;
        auto r = qp.second->search(q);
        K k = std::max(first_key, q);
        auto pr = Access::ef_pred(*qp.second, uint64_t(k - first_key));
        long long pidx = pr.first > 2000000000u ? -2 : (long long) pr.first;
        Wide<K> origin = (Wide<K>) pr.second + (Wide<K>) first_key;
        long long porig = origin > (Wide<K>) std::numeric_limits<K>::max() ? -2 : nm(origin);
        out.begin("Search").num("q", nm((Wide<K>) q)).num("pos", clampll(r.pos)).num("lo", clampll(r.lo)).num("hi", clampll(r.hi))
            .raw("route", "[]").num("bk", -1).num("seg", -1).raw("sl", "[]").raw("pr", jarr({pidx, porig})).end();
    }
    out.begin("End").end();
}

// ---- Compressed -----------------------------------------------------------------------------------------------------
template<typename K, size_t Eps, size_t EpsRec>
void run_compressed(const VPlan &pl) {
    long long x = g_exec_counter++;
    if (g_only >= 0 && x != g_only) return;
    using P = pgm::CompressedPGMIndex<K, Eps, EpsRec>;
    Rng rng(pl.seed);
    Out &out = shard_file(x);
    std::vector<long long> off = pl.explicit_offsets.empty() ? gen_offsets(pl.kind, pl.n, Eps, rng, std::abs(pl.chunks) > 1 ? (size_t) std::abs(pl.chunks) : 0) : pl.explicit_offsets;
    bool wide = false;
    std::vector<K> data = place<K>(off, pl.where, rng, wide);
    const size_t n = data.size();
    std::unique_ptr<P> idx;
    pgm::verif::forced_parallelism = pl.chunks > 1 ? pl.chunks : 0;
    pgm::verif::forced_min_n = data.size();
    std::string res = outcome([&] { idx.reset(new P(data.begin(), data.end())); });
    pgm::verif::forced_parallelism = 0;
    auto queries = make_queries<K>(data, rng, n <= 40 ? n : 40, std::abs(pl.chunks));
    std::vector<K> extra;
    if (idx) for (auto &lv : Access::clevels(*idx)) for (auto k : lv.keys) extra.push_back(k);
    auto nm = make_norm<K>(data, queries, wide, extra);
    size_t threshold = 8 * 64 / sizeof(K);
    const char *route = EpsRec == 0 ? "binary_one_level" : EpsRec <= threshold ? "linear" : "binary_window";
    out.begin("Reset").num("x", x).str("cls", "Compressed").str("prop", "C08").str("K", type_name<K>()).str("F", "f32")
        .num("eps", Eps).num("epsrec", EpsRec).str("route", route).str("norm", nm.offset ? "offset" : "rank").num("chunks", std::abs(pl.chunks) > 1 ? std::abs(pl.chunks) : 1)
        .num("n", (long long) n).num("sent", nm((Wide<K>) Norm<K>::sentinel())).num("T", 0).num("bits", 0)
        .str("gen", pl.kind).raw("tags", jstrs(pl.tags)).num("seed", (long long) (pl.seed & 0x7fffffff)).end();
    std::vector<long long> nd;
    for (auto v : data) nd.push_back(nm((Wide<K>) v));
    if (getenv("VERIF_RAW")) { std::string rs; for (auto v : data) rs += std::to_string(v) + " "; fprintf(stderr, "RAW x=%lld: %s\n", x, rs.c_str()); }
    auto &o = out.begin("Build").raw("data", jarr(nd)).str("out", res);
    if (res == "ok") {
        // levels top-down as the class stores them: keys and decoded intercepts
        std::string lv = "[";
        bool first = true;
        for (auto &l : Access::clevels(*idx)) {
            if (!first) lv += ",";
            first = false;
            std::vector<long long> ks, ics;
            for (auto k : l.keys) ks.push_back(nm((Wide<K>) k));
            for (size_t i = 0; i < l.keys.size(); ++i) ics.push_back((long long) l.get_intercept(i));
            lv += "{\"keys\":" + jarr(ks) + ",\"ic\":" + jarr(ics) + ",\"sl\":[]}";
        }
        long long nsegs = (long long) idx->segments_count();
        o.num("height", (long long) idx->height()).num("nsegs", nsegs).raw("levels", lv + "]").raw("skeys", "[]").raw("top", "[]");
    }
    o.end();
    if (res != "ok") { out.begin("End").end(); return; }
    std::vector<std::unique_ptr<P>> fresh;
    for (auto &qp : query_plan(idx.get(), queries, data, rng, fresh)) {
        K q = qp.first;
        auto r = qp.second->search(q);
        out.begin("Search").num("q", nm((Wide<K>) q)).num("pos", clampll(r.pos)).num("lo", clampll(r.lo)).num("hi", clampll(r.hi))
            .raw("route", "[]").num("bk", -1).num("seg", -1).raw("sl", "[]").raw("pr", "[]").end();
    }
    out.begin("End").end();
}

static void all_arrays(size_t U, size_t N, std::vector<long long> &cur, const std::function<void(const std::vector<long long> &)> &f) {
    if (!cur.empty()) f(cur);
    if (cur.size() == N) return;
    for (long long k = cur.empty() ? 0 : cur.back(); k < (long long) U; ++k) { cur.push_back(k); all_arrays(U, N, cur, f); cur.pop_back(); }
}

struct Plan { std::string tier; uint64_t seed; };

template<typename F>
void drive(const Plan &p, uint64_t salt, int exhaustive_level, size_t eps, bool small_type, F &&run, bool tiny_chunks_ok = false) {
    Rng rng(p.seed ^ salt);
    bool quick = p.tier == "quick";
    if (exhaustive_level > 0) {
        size_t U = exhaustive_level == 2 ? 8 : 6, N = exhaustive_level == 2 ? 5 : 4;
        if (!quick) { U += 2; N += 2; }
        std::vector<long long> cur;
        int wc = 0;
        all_arrays(U, N, cur, [&](const std::vector<long long> &a) {
            run(VPlan{"exhaustive", a.size(), wc++ % 3, {"exhaustive"}, rng.next(), a});
            // the same array with its first level built in 2 or 3 chunks (Bucketing / Elias-Fano: PGMIndex::build); chunks of one or
            // two elements cannot occur in the library (a chunk has at least 2^15 / 20 elements), so classes whose encoding
            // relies on segments being far apart in rank (Compressed: strictly increasing stored intercepts) are excluded
            if (tiny_chunks_ok && a.size() >= 4 && wc % 2 == 0) run(VPlan{"exhaustive", a.size(), wc % 3, {"exhaustive", "forced_chunks"}, rng.next(), a, 2 + (wc / 2) % 2});
        });
    }
    const std::vector<std::string> kinds = {"runs", "sawtooth", "collinear", "steps", "random", "convex", "curve_far_dense", "clusters_irregular"};
    int reps = quick ? 1 : 4;
    // runs of duplicates that end at, start at or straddle the chunk boundaries of a forced chunked build
    // (chunks of at least 2 Epsilon + 6 elements: segments of different chunks stay apart in rank, as in the library)
    for (int rep = 0; rep < 2 * reps && !small_type && eps <= 32; ++rep)
        for (int chunks = 2; chunks <= 5; ++chunks) {
            int where = std::vector<int>{0, 1, 2, 5}[(size_t) (rep + chunks) % 4];
            size_t n = (size_t) chunks * (2 * eps + 6 + rng.below(60)) + rng.below(3);
            run(VPlan{"seams", n, where, {"seams", "forced_chunks"}, rng.next(), {}, chunks});
        }
    // and the library's own chunking: at least 2^15 elements, threads from the environment
    if (!small_type && (salt % 4 == 3 || !quick)) {
        size_t n = 32768 + rng.below(9000);
        int real = std::min(std::min(omp_get_num_procs(), omp_get_max_threads()), 20);     // as make_segmentation_par computes it
        run(VPlan{"seams", n, (int) rng.below(3), {"seams", "real_chunked"}, rng.next(), {}, -real});   // negative: nothing is forced
    }
    for (int rep = 0; rep < reps; ++rep)
        for (auto &kind : kinds)
            for (int where = 0; where < 6; ++where) {
                if (small_type && (where == 3 || where == 4)) continue;
                size_t nmax = quick ? 300 : 3000;
                if (kind == "clusters_irregular" && (small_type || where == 3 || where == 4)) continue;   // (has its own spread)
                size_t n = kind == "clusters_irregular" ? 500 + rng.below(700) : where >= 3 ? (small_type ? 8 + rng.below(120) : 20 + rng.below(nmax)) : 1 + rng.below(rng.chance(1, 3) ? 12 : nmax);
                VPlan pl{kind, n, where, {kind}, rng.next(), {}};
                if (where == 1) pl.tags.push_back("at_lowest");
                if (where == 2) pl.tags.push_back("ends_at_max-1");
                if (where == 3) pl.tags.push_back("wide");
                if (where == 4) pl.tags.push_back("clustered");
                if (where == 5) pl.tags.push_back("full_span");
                run(pl);
            }
}

// levels of many more segments than the routing window holds: random / stepped data with Epsilon 1 give a segment every few
// keys, and an EpsilonRecursive just above the linear-scan threshold selects the windowed binary search on every level
template<typename F>
void drive_long_levels(const Plan &p, uint64_t salt, size_t nmin, size_t nmax, F &&run) {
    Rng rng(p.seed ^ salt);
    const std::vector<std::string> kinds = {"random", "steps", "runs", "sawtooth", "clusters_irregular", "clusters_big"};
    int reps = p.tier == "quick" ? 1 : 4;
    for (int rep = 0; rep < reps; ++rep)
        for (size_t i = 0; i < kinds.size(); ++i) {
            bool cl = kinds[i] == "clusters_irregular" || kinds[i] == "clusters_big";
            int where = cl ? (int) (i % 2) : std::vector<int>{0, 2, 5, 1}[(i + (size_t) rep) % 4];
            // clusters_big: a few clusters of more than a thousand keys each, so that one cluster alone fills several segments of the
            // level above the bottom one (three levels, and a level-1 segment that ends where a huge gap begins)
            size_t nn = kinds[i] == "clusters_big" ? 6000 + rng.below(3000) : nmin + rng.below(nmax - nmin);
            VPlan pl{kinds[i], nn, where, {kinds[i], "long_levels"}, rng.next(), {}};
            run(pl);
        }
}

int main(int argc, char **argv) {
    Args a(argc, argv);
    install_crash_handlers();
    g_outdir = a.get("out", ".");
    g_only = a.geti("only", -1);
    g_shards = (int) a.geti("shards", 4);
    Plan p{a.get("tier", "quick"), (uint64_t) a.geti("seed", 1)};
#if PART == 0   // Compressed
    drive(p, 11, 2, 1, false, [](const VPlan &pl) { run_compressed<uint32_t, 1, 1>(pl); });
    drive(p, 12, 1, 2, false, [](const VPlan &pl) { run_compressed<uint32_t, 2, 4>(pl); });
    drive(p, 13, 1, 1, false, [](const VPlan &pl) { run_compressed<uint32_t, 1, 0>(pl); });
    drive(p, 14, 0, 8, false, [](const VPlan &pl) { run_compressed<uint32_t, 8, 4>(pl); });
    drive(p, 15, 0, 32, false, [](const VPlan &pl) { run_compressed<uint32_t, 32, 4>(pl); });
    drive(p, 16, 0, 128, false, [](const VPlan &pl) { run_compressed<uint32_t, 128, 4>(pl); });
    drive(p, 17, 1, 2, false, [](const VPlan &pl) { run_compressed<uint64_t, 2, 1>(pl); });
    drive(p, 18, 0, 8, false, [](const VPlan &pl) { run_compressed<uint64_t, 8, 0>(pl); });
    drive(p, 19, 1, 2, false, [](const VPlan &pl) { run_compressed<uint32_t, 2, 256>(pl); });
    drive(p, 20, 1, 1, true, [](const VPlan &pl) { run_compressed<uint8_t, 1, 1>(pl); });
    drive(p, 21, 1, 2, true, [](const VPlan &pl) { run_compressed<uint16_t, 2, 1>(pl); });
    drive(p, 22, 0, 4, false, [](const VPlan &pl) { run_compressed<uint64_t, 4, 256>(pl); });
    drive_long_levels(p, 23, 700, 2500, [](const VPlan &pl) { run_compressed<uint64_t, 1, 65>(pl); });
    drive_long_levels(p, 24, 1500, 4000, [](const VPlan &pl) { run_compressed<uint32_t, 1, 129>(pl); });
    drive_long_levels(p, 25, 700, 2500, [](const VPlan &pl) { run_compressed<uint64_t, 2, 8>(pl); });
#elif PART == 1  // Bucketing
    drive(p, 31, 2, 1, false, [](const VPlan &pl) { run_bucketing<uint32_t, 1, 4, 32>(pl); }, true);
    drive(p, 32, 1, 1, false, [](const VPlan &pl) { run_bucketing<uint32_t, 1, 3, 0>(pl); }, true);
    drive(p, 33, 1, 2, false, [](const VPlan &pl) { run_bucketing<uint32_t, 2, 2, 0>(pl); }, true);
    drive(p, 34, 0, 4, false, [](const VPlan &pl) { run_bucketing<uint32_t, 4, 128, 32>(pl); }, true);
    drive(p, 35, 0, 8, false, [](const VPlan &pl) { run_bucketing<uint32_t, 8, 100, 32>(pl); }, true);
    drive(p, 36, 0, 8, false, [](const VPlan &pl) { run_bucketing<uint32_t, 8, 550, 0>(pl); }, true);
    drive(p, 37, 1, 2, false, [](const VPlan &pl) { run_bucketing<uint64_t, 2, 16, 0>(pl); }, true);
    drive(p, 38, 0, 16, false, [](const VPlan &pl) { run_bucketing<uint64_t, 16, 4096, 32>(pl); }, true);
    drive(p, 39, 1, 1, true, [](const VPlan &pl) { run_bucketing<uint8_t, 1, 4, 0>(pl); }, true);
    drive(p, 40, 1, 2, true, [](const VPlan &pl) { run_bucketing<uint8_t, 2, 100, 32>(pl); }, true);
    drive(p, 41, 1, 1, true, [](const VPlan &pl) { run_bucketing<uint16_t, 1, 5, 0>(pl); }, true);
    drive(p, 42, 0, 128, false, [](const VPlan &pl) { run_bucketing<uint64_t, 128, 3, 32>(pl); }, true);
#else            // Elias-Fano
    drive(p, 51, 2, 1, false, [](const VPlan &pl) { run_eliasfano<uint32_t, 1>(pl); }, true);
    drive(p, 52, 1, 2, false, [](const VPlan &pl) { run_eliasfano<uint32_t, 2>(pl); }, true);
    drive(p, 53, 0, 8, false, [](const VPlan &pl) { run_eliasfano<uint32_t, 8>(pl); }, true);
    drive(p, 54, 0, 32, false, [](const VPlan &pl) { run_eliasfano<uint32_t, 32>(pl); }, true);
    drive(p, 55, 0, 128, false, [](const VPlan &pl) { run_eliasfano<uint32_t, 128>(pl); }, true);
    drive(p, 56, 2, 1, false, [](const VPlan &pl) { run_eliasfano<uint64_t, 1>(pl); }, true);
    drive(p, 57, 0, 4, false, [](const VPlan &pl) { run_eliasfano<uint64_t, 4>(pl); }, true);
    drive(p, 58, 1, 1, true, [](const VPlan &pl) { run_eliasfano<uint16_t, 1>(pl); }, true);
    drive(p, 59, 0, 3, true, [](const VPlan &pl) { run_eliasfano<uint16_t, 3>(pl); }, true);
#endif
    for (auto &f : g_files) f->flush();
    return 0;
}
