// Shared pieces of the recorders: ndjson writer, deterministic RNG, the befriended accessor, crash handling.
// Recorders only DRIVE the implementation and RECORD what it did; they never judge a property (TLC does).
#pragma once

#ifndef PGM_INDEX_VERIF
#error "recorders are built with -DPGM_INDEX_VERIF"
#endif

#include <algorithm>
#include <cassert>
#include <csignal>
#include <cstdint>
#include <cstdio>
#include <cstdlib>
#include <cstring>
#include <exception>
#include <functional>
#include <map>
#include <mutex>
#include <set>
#include <string>
#include <type_traits>
#include <typeinfo>
#include <unistd.h>
#include <vector>

namespace vrec {

// ---------------------------------------------------------------------------------------------------------------
// splitmix64 / xorshift: reproducible across libstdc++ versions (std distributions are not)
struct Rng {
    uint64_t s;
    explicit Rng(uint64_t seed) : s(seed * 0x9E3779B97F4A7C15ull + 0xD1B54A32D192ED03ull) { next(); next(); }
    uint64_t next() {
        uint64_t z = (s += 0x9E3779B97F4A7C15ull);
        z = (z ^ (z >> 30)) * 0xBF58476D1CE4E5B9ull;
        z = (z ^ (z >> 27)) * 0x94D049BB133111EBull;
        return z ^ (z >> 31);
    }
    uint64_t below(uint64_t n) { return n ? next() % n : 0; }            // [0, n)
    uint64_t range(uint64_t lo, uint64_t hi) { return lo + below(hi - lo + 1); }  // [lo, hi]
    bool chance(unsigned num, unsigned den) { return below(den) < num; }
    template<typename T> const T &pick(const std::vector<T> &v) { return v[below(v.size())]; }
};

// ---------------------------------------------------------------------------------------------------------------
// ndjson writer: one object per line; a line is written with a single fwrite so that a crash leaves whole lines
class Out {
    FILE *f = nullptr;
    std::string buf;
    bool first = true;
    size_t lines_ = 0;
public:
    Out() = default;
    explicit Out(const std::string &path) { open(path); }
    void open(const std::string &path) {
        f = fopen(path.c_str(), "w");
        if (!f) { perror(path.c_str()); _exit(3); }
    }
    ~Out() { if (f) fclose(f); }
    size_t lines() const { return lines_; }

    Out &begin(const char *event) { buf.clear(); buf += "{\"e\":\""; buf += event; buf += "\""; first = false; return *this; }
    Out &key(const char *k) { buf += ",\""; buf += k; buf += "\":"; return *this; }
    Out &num(const char *k, long long v) { key(k); buf += std::to_string(v); return *this; }
    Out &boolean(const char *k, bool v) { key(k); buf += v ? "true" : "false"; return *this; }
    Out &str(const char *k, const std::string &v) { key(k); buf += "\""; buf += v; buf += "\""; return *this; }
    Out &raw(const char *k, const std::string &json) { key(k); buf += json; return *this; }
    // every line is pushed to the file at once, so that an abrupt end of the process (sanitizer exit, kill) leaves whole lines
    void end() { buf += "}\n"; fwrite(buf.data(), 1, buf.size(), f); fflush(f); ++lines_; }
    void flush() { if (f) fflush(f); }
    int fd() const { return f ? fileno(f) : -1; }
};

inline std::string jarr(const std::vector<long long> &v) {
    std::string s = "[";
    for (size_t i = 0; i < v.size(); ++i) { if (i) s += ","; s += std::to_string(v[i]); }
    return s + "]";
}
inline std::string jarr2(const std::vector<std::vector<long long>> &v) {
    std::string s = "[";
    for (size_t i = 0; i < v.size(); ++i) { if (i) s += ","; s += jarr(v[i]); }
    return s + "]";
}
inline std::string jstrs(const std::vector<std::string> &v) {
    std::string s = "[";
    for (size_t i = 0; i < v.size(); ++i) { if (i) s += ","; s += "\"" + v[i] + "\""; }
    return s + "]";
}

// ---------------------------------------------------------------------------------------------------------------
// A crash (abort from an assertion, a sanitizer report, a signal) must leave a truncated trace, not no trace:
// all open outputs are flushed and a {"e":"Crash"} line, for which no trace specification has an action, is appended.
inline std::vector<Out *> &open_outs() { static std::vector<Out *> v; return v; }
inline void crash_flush(const char *why) {
    for (auto *o : open_outs()) {
        o->flush();
        int fd = o->fd();
        if (fd >= 0) {
            std::string line = std::string("{\"e\":\"Crash\",\"why\":\"") + why + "\"}\n";
            (void) !write(fd, line.data(), line.size());
        }
    }
}
inline void on_signal(int sig) { crash_flush(sig == SIGSEGV ? "SIGSEGV" : sig == SIGABRT ? "SIGABRT" : sig == SIGFPE ? "SIGFPE" : "signal"); _exit(0); }
inline void on_terminate() { crash_flush("terminate"); _exit(0); }
inline void install_crash_handlers() {
    std::set_terminate(on_terminate);
    for (int s : {SIGSEGV, SIGABRT, SIGFPE, SIGBUS, SIGILL}) signal(s, on_signal);
}

// classify the outcome of a call for the "out" field
template<typename F>
std::string outcome(F &&f) {
    try { f(); return "ok"; }
    catch (const std::invalid_argument &) { return "invalid_argument"; }
    catch (const std::overflow_error &) { return "overflow_error"; }
    catch (const std::runtime_error &) { return "runtime_error"; }
    catch (const std::logic_error &) { return "logic_error"; }
    catch (const std::exception &) { return "exception"; }
    catch (...) { return "unknown"; }
}

// ---------------------------------------------------------------------------------------------------------------
// command line: --key value pairs
struct Args {
    std::map<std::string, std::string> kv;
    Args(int argc, char **argv) {
        for (int i = 1; i + 1 < argc; i += 2) {
            std::string k = argv[i];
            if (k.rfind("--", 0) == 0) kv[k.substr(2)] = argv[i + 1];
        }
    }
    std::string get(const std::string &k, const std::string &d = "") const { auto it = kv.find(k); return it == kv.end() ? d : it->second; }
    long long geti(const std::string &k, long long d) const { auto it = kv.find(k); return it == kv.end() ? d : atoll(it->second.c_str()); }
};

template<typename T> const char *type_name() {
    if constexpr (std::is_same_v<T, uint8_t>) return "u8";
    else if constexpr (std::is_same_v<T, int8_t>) return "i8";
    else if constexpr (std::is_same_v<T, uint16_t>) return "u16";
    else if constexpr (std::is_same_v<T, int16_t>) return "i16";
    else if constexpr (std::is_same_v<T, uint32_t>) return "u32";
    else if constexpr (std::is_same_v<T, int32_t>) return "i32";
    else if constexpr (std::is_same_v<T, uint64_t>) return "u64";
    else if constexpr (std::is_same_v<T, int64_t>) return "i64";
    else if constexpr (std::is_same_v<T, float>) return "f32";
    else if constexpr (std::is_same_v<T, double>) return "f64";
    else return "other";
}

} // namespace vrec
