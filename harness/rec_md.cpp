// Recorder for MultidimensionalPGMIndex (C13 range, C14 contains).
// Builds the container on generated point multisets (dense grids with holes and duplicates, thin slabs, clusters),
// runs range(min,max) to end() for many boxes (single cells, slabs, full space, empty boxes, boxes whose corners are
// stored points, boxes reaching the last stored code) and contains(p) for present and absent points (below, between,
// above all stored codes), and logs what came back.  Jumps of the Z-order scan are logged through hook H4.
// Validated by spec/MdTrace.tla.
#include "rec_common.hpp"
#include "access.hpp"

#include <array>
#include <memory>
#include <tuple>

using namespace vrec;
using pgm::verif::Access;

static std::string g_outdir;
static long long g_only = -1, g_exec_counter = 0;
static int g_shards = 4;
static std::vector<std::unique_ptr<Out>> g_files;
static Out &shard_file(long long x) {
    if (g_files.empty())
        for (int i = 0; i < g_shards; ++i) {
            g_files.emplace_back(new Out(g_outdir + "/md_s" + std::to_string(i) + ".ndjson"));
            open_outs().push_back(g_files.back().get());
            g_files.back()->begin("Config").str("cls", "Multidim").end();
        }
    return *g_files[size_t(x) % g_files.size()];
}

template<size_t D> using Pt = std::array<long long, D>;

template<typename T, size_t D, size_t... I> auto to_tuple_impl(const Pt<D> &p, const std::array<T, D> &b, std::index_sequence<I...>) { return std::make_tuple(T(b[I] + T(p[I]))...); }
template<typename T, size_t D> auto to_tuple(const Pt<D> &p, const std::array<T, D> &b) { return to_tuple_impl<T, D>(p, b, std::make_index_sequence<D>()); }
template<size_t D, typename T, typename Tup, size_t... I> Pt<D> from_tuple_impl(const Tup &t, const std::array<T, D> &b, std::index_sequence<I...>) {
    return Pt<D>{(std::get<I>(t) >= b[I] && std::get<I>(t) - b[I] < 100000 ? (long long) (std::get<I>(t) - b[I]) : -7)...}; }
template<size_t D, typename T, typename Tup> Pt<D> from_tuple(const Tup &t, const std::array<T, D> &b) { return from_tuple_impl<D, T>(t, b, std::make_index_sequence<D>()); }
template<size_t D> std::string jpt(const Pt<D> &p) { std::string s = "["; for (size_t i = 0; i < D; ++i) { if (i) s += ","; s += std::to_string(p[i]); } return s + "]"; }

struct MdPlan { std::string kind; int side; size_t n; std::vector<std::string> tags; uint64_t seed; int block = 0; };

template<uint8_t D, typename T, size_t Eps>
void run_md(const MdPlan &pl) {
    long long x = g_exec_counter++;
    if (g_only >= 0 && x != g_only) return;
    using M = pgm::MultidimensionalPGMIndex<D, T, Eps>;
    Rng rng(pl.seed);
    Out &out = shard_file(x);
    const long long side = pl.side;      // coordinates in [0, side)
    // Placement in the coordinate space: the points live in one aligned block [base, base + 2^k) per dimension.  All
    // points and boxes then share their high bits, so the Morton order inside the block is the order of the offsets, which
    // is what gets logged (TLC has 32-bit integers).  block 1: the topmost block of the encodable range, 2: a random one.
    constexpr int fieldbits = std::numeric_limits<T>::digits / D;
    int kbits = 1; while ((1LL << kbits) < side) ++kbits;
    std::array<T, D> base{};
    if (pl.block && kbits < fieldbits - 1)
        for (size_t d = 0; d < D; ++d) {
            T blocks = (T(1) << (fieldbits - 1 - kbits));        // number of aligned blocks below the limit 2^(fieldbits-1)
            T h = pl.block == 1 ? blocks - 1 : T(rng.next() % blocks);
            base[d] = h << kbits;
        }
    std::vector<Pt<D>> pts;
    auto rnd_pt = [&] { Pt<D> p; for (auto &c : p) c = (long long) rng.below((uint64_t) side); return p; };
    if (pl.kind == "dense") {            // full grid with 50-100% occupancy, some duplicates
        unsigned keep = 50 + (unsigned) rng.below(51);
        Pt<D> p{};
        std::function<void(size_t)> rec = [&](size_t d) {
            if (d == D) { if (rng.below(100) < keep) { pts.push_back(p); if (rng.chance(1, 12)) pts.push_back(p); } return; }
            for (long long v = 0; v < side; ++v) { p[d] = v; rec(d + 1); }
        };
        rec(0);
        if (pts.empty()) pts.push_back(rnd_pt());
    } else if (pl.kind == "clusters") {
        for (size_t c = 0; c < 4; ++c) { Pt<D> ctr = rnd_pt(); for (size_t i = 0; i < pl.n / 4 + 1; ++i) { Pt<D> p = ctr; for (auto &v : p) v = std::min(side - 1, std::max(0LL, v + (long long) rng.below(5) - 2)); pts.push_back(p); } }
    } else if (pl.kind == "line") {      // points on a diagonal / axis: long stretches of the Z curve without points
        for (size_t i = 0; i < pl.n; ++i) { Pt<D> p{}; long long v = (long long) rng.below((uint64_t) side); for (size_t d = 0; d < D; ++d) p[d] = (d % 2 ? v : (rng.chance(1, 3) ? 0 : v)); pts.push_back(p); }
    } else if (pl.kind == "heavy") {     // few distinct points, some of them stored many times (more copies than a search window holds)
        size_t distinct = 8 + rng.below(30);
        for (size_t i = 0; i < distinct; ++i) {
            Pt<D> p = rnd_pt();
            size_t copies = rng.chance(1, 3) ? 1 : rng.chance(1, 2) ? 2 + rng.below(6) : 2 * Eps + 3 + rng.below(3 * Eps + 40);
            for (size_t c = 0; c < copies; ++c) pts.push_back(p);
        }
    } else {                             // "random"
        for (size_t i = 0; i < pl.n; ++i) { pts.push_back(rnd_pt()); if (rng.chance(1, 10)) pts.push_back(pts.back()); }
    }
    using Tup = decltype(to_tuple<T, D>(pts[0], base));
    std::vector<Tup> tuples;
    for (auto &p : pts) tuples.push_back(to_tuple<T, D>(p, base));

    out.begin("Reset").num("x", x).str("cls", "Multidim").num("D", D).str("T", type_name<T>()).num("eps", Eps).num("side", side)
        .num("block", pl.block).str("gen", pl.kind).raw("tags", jstrs(pl.tags)).num("seed", (long long) (pl.seed & 0x7fffffff)).end();
    std::unique_ptr<M> m;
    std::string res = outcome([&] { m.reset(new M(tuples.begin(), tuples.end())); });
    {
        std::string s = "[";
        for (size_t i = 0; i < pts.size(); ++i) { if (i) s += ","; s += jpt<D>(pts[i]); }
        // the sorted codes, as the container stores them (tier B: the specification's own Morton code must agree)
        std::vector<long long> codes;
        T base_code = Access::md_encode<M>(to_tuple<T, D>(Pt<D>{}, base));
        if (m) for (auto c : Access::md_data(*m)) codes.push_back(c >= base_code && c - base_code < 2000000000u ? (long long) (c - base_code) : -7);
        out.begin("Points").raw("pts", s + "]").str("out", res).raw("codes", jarr(codes)).end();
    }
    if (res != "ok") { out.begin("End").end(); return; }

    auto do_range = [&](Pt<D> mn, Pt<D> mx, const char *shape) {
        std::vector<pgm::verif::JumpEvent> jl;
        pgm::verif::jump_log = &jl;
        std::string rs = "[";
        size_t cnt = 0;
        std::string o = outcome([&] {
            auto endit = m->end();
            for (auto it = m->range(to_tuple<T, D>(mn, base), to_tuple<T, D>(mx, base)); it != endit; ++it) {
                if (cnt) rs += ",";
                rs += jpt<D>(from_tuple<D, T>(*it, base));
                if (++cnt > pts.size() + 8) { rs += ",[-1]"; break; }     // runaway iteration: logged, rejected by the spec
            }
        });
        pgm::verif::jump_log = nullptr;
        std::vector<std::vector<long long>> jv;
        T bc = Access::md_encode<M>(to_tuple<T, D>(Pt<D>{}, base));
        for (auto &j : jl) jv.push_back({(long long) (j.from - bc), (long long) (j.bigmin - bc), (long long) j.landing});
        out.begin("Range").raw("min", jpt<D>(mn)).raw("max", jpt<D>(mx)).str("shape", shape).raw("res", rs + "]").raw("jumps", jarr2(jv)).str("out", o).end();
    };
    auto ordered = [&](Pt<D> a, Pt<D> b) { for (size_t d = 0; d < D; ++d) if (a[d] > b[d]) std::swap(a[d], b[d]); return std::make_pair(a, b); };
    size_t nboxes = pts.size() > 300 ? 24 : 40;
    for (size_t i = 0; i < nboxes; ++i) {
        Pt<D> a = rnd_pt(), b = rnd_pt();
        const char *shape = "random";
        switch (i % 8) {
            case 0: b = a; shape = "single_cell"; break;
            case 1: a = pts[rng.below(pts.size())]; b = a; shape = "single_stored_cell"; break;
            case 2: for (auto &v : a) v = 0; for (auto &v : b) v = side - 1; shape = "full_space"; break;
            case 3: { size_t d = rng.below(D); for (size_t e = 0; e < D; ++e) { a[e] = 0; b[e] = side - 1; } a[d] = b[d] = (long long) rng.below((uint64_t) side); shape = "slab"; break; }
            case 4: a = pts[rng.below(pts.size())]; b = pts[rng.below(pts.size())]; shape = "corners_stored"; break;
            case 5: { size_t d = rng.below(D); for (size_t e = 0; e < D; ++e) { a[e] = 0; b[e] = side - 1; } a[d] = (long long) rng.below((uint64_t) side); b[d] = std::min(side - 1, a[d] + 1); shape = "thick_slab"; break; }
            case 6: for (auto &v : b) v = side - 1; shape = "up_to_last"; break;
            default: break;
        }
        auto ab = ordered(a, b);
        do_range(ab.first, ab.second, shape);
    }
    // contains: stored points, and absent ones everywhere in the grid (below / between / above all stored codes)
    std::vector<std::vector<long long>> rows;
    std::string cs = "[";
    bool first = true;
    auto do_contains = [&](const Pt<D> &p) {
        bool r = false;
        std::string o = outcome([&] { r = m->contains(to_tuple<T, D>(p, base)); });
        if (!first) cs += ",";
        first = false;
        cs += "{\"p\":" + jpt<D>(p) + ",\"r\":" + (o == "ok" ? (r ? "1" : "0") : "-1") + "}";
    };
    for (size_t i = 0; i < std::min<size_t>(pts.size(), 40); ++i) do_contains(pts[rng.below(pts.size())]);
    for (size_t i = 0; i < 60; ++i) do_contains(rnd_pt());
    { Pt<D> lo{}, hi; for (auto &v : hi) v = side - 1; do_contains(lo); do_contains(hi); }
    // an answer may not depend on the calls made before it: the same point twice, present / absent alternating
    {
        Pt<D> hit = pts[rng.below(pts.size())], miss = rnd_pt(), lo{};
        do_contains(hit); do_contains(hit); do_contains(miss); do_contains(miss); do_contains(hit); do_contains(miss); do_contains(lo); do_contains(lo); do_contains(hit);
    }
    out.begin("Contains").raw("rows", cs + "]").end();
    // ... nor on there having been calls at all: each of a few points is the FIRST query of a freshly built, identical container
    if (pts.size() <= 3000) {
        Pt<D> lo{}, hi; for (auto &v : hi) v = side - 1;
        std::vector<Pt<D>> firsts{lo, hi, pts[0], pts.back(), pts[rng.below(pts.size())], rnd_pt()};
        cs = "["; first = true;
        std::unique_ptr<M> keep = std::move(m);
        for (auto &p : firsts) {
            m.reset(new M(tuples.begin(), tuples.end()));
            do_contains(p);
        }
        m = std::move(keep);
        out.begin("Contains").raw("rows", cs + "]").str("fresh", "each").end();
    }
    out.begin("End").end();
}

struct Plan { std::string tier; uint64_t seed; };

template<uint8_t D, typename T, size_t Eps>
void drive(const Plan &p, uint64_t salt, int side_dense, int side_sparse) {
    Rng rng(p.seed ^ salt);
    bool quick = p.tier == "quick";
    int reps = quick ? 1 : 4;
    for (int rep = 0; rep < reps; ++rep) {
        run_md<D, T, Eps>({"dense", side_dense, 0, {"dense"}, rng.next()});
        run_md<D, T, Eps>({"dense", std::max(2, side_dense / 2), 0, {"dense", "small"}, rng.next()});
        run_md<D, T, Eps>({"random", side_sparse, 1 + rng.below(quick ? 150 : 600), {"random"}, rng.next()});
        run_md<D, T, Eps>({"random", side_sparse, 1 + rng.below(4), {"random", "tiny"}, rng.next()});
        run_md<D, T, Eps>({"clusters", side_sparse, 40 + rng.below(100), {"clusters"}, rng.next()});
        run_md<D, T, Eps>({"line", side_sparse, 30 + rng.below(100), {"line"}, rng.next()});
        run_md<D, T, Eps>({"heavy", std::max(4, side_dense / 2), 0, {"heavy"}, rng.next()});
        run_md<D, T, Eps>({"heavy", side_sparse, 0, {"heavy", "top_block"}, rng.next(), 1});
        // the same shapes in the topmost / a random aligned block of the encodable coordinate range
        run_md<D, T, Eps>({"dense", std::max(2, side_dense / 2), 0, {"dense", "top_block"}, rng.next(), 1});
        run_md<D, T, Eps>({"random", side_sparse, 1 + rng.below(quick ? 150 : 600), {"random", "top_block"}, rng.next(), 1});
        run_md<D, T, Eps>({"clusters", side_sparse, 40 + rng.below(100), {"clusters", "random_block"}, rng.next(), 2});
    }
}

int main(int argc, char **argv) {
    Args a(argc, argv);
    install_crash_handlers();
    g_outdir = a.get("out", ".");
    g_only = a.geti("only", -1);
    g_shards = (int) a.geti("shards", 4);
    Plan p{a.get("tier", "quick"), (uint64_t) a.geti("seed", 1)};
#ifdef MORTON_ND_BMI2_ENABLED
    drive<2, uint32_t, 1>(p, 1, 32, 64);
    drive<2, uint32_t, 16>(p, 2, 32, 512);
    drive<2, uint64_t, 4>(p, 3, 32, 1000);
    drive<2, uint64_t, 64>(p, 4, 24, 200);
    drive<3, uint32_t, 4>(p, 5, 10, 64);
    drive<3, uint64_t, 1>(p, 6, 10, 100);
    drive<3, uint64_t, 16>(p, 7, 8, 120);
    drive<4, uint64_t, 4>(p, 8, 5, 30);
    drive<4, uint64_t, 1>(p, 9, 6, 16);
#else
    fprintf(stderr, "BMI2 not available: MultidimensionalPGMIndex is not compiled\n");
    return 4;
#endif
    for (auto &f : g_files) f->flush();
    return 0;
}
