// Recorder for MappedPGMIndex (C11: multiset queries; C12: create-from-range / create-from-raw / reopen equivalence).
// For every data set it executes an order of the actions CreateFromRange(f), CreateFromRaw(f), Reopen(f), Close(c) —
// either generated here or by TLC (--orders file) — in a scratch directory and logs, per open container, the sequence
// read back through begin()/end(), size() and the answers of lower_bound / upper_bound / count / contains, and per file
// its header fields (parsed from the bytes, no hook) and a content class (equal bytes <=> equal class).
// Validated by spec/MappedTrace.tla.
#include "rec_common.hpp"
#include "access.hpp"
#include "static_common.hpp"

#include <fstream>
#include <memory>
#include <sys/resource.h>
#include <sys/stat.h>

static std::string g_outdir, g_scratch;
static long long g_only = -1, g_exec_counter = 0;
static int g_shards = 4;
static std::vector<std::unique_ptr<Out>> g_files;

static Out &shard_file(long long x) {
    if (g_files.empty())
        for (int i = 0; i < g_shards; ++i) {
            g_files.emplace_back(new Out(g_outdir + "/mapped_s" + std::to_string(i) + ".ndjson"));
            open_outs().push_back(g_files.back().get());
            g_files.back()->begin("Config").str("cls", "Mapped").end();
        }
    return *g_files[size_t(x) % g_files.size()];
}

static std::string slurp(const std::string &p) {
    std::ifstream f(p, std::ios::binary);
    return std::string((std::istreambuf_iterator<char>(f)), std::istreambuf_iterator<char>());
}

struct MPlan {
    std::string kind;
    size_t n;
    int where;
    std::vector<std::string> tags;
    uint64_t seed;
    std::vector<int> order;   // actions: 0 CreateFromRange(f1) 1 CreateFromRaw(f2) 2 Reopen(f1) 3 Reopen(f2) 4 Close(oldest open) 5 CreateFromRange(f2) 6 CreateFromRaw(f1)
};

template<typename K, size_t Eps, size_t EpsRec>
void run_mapped(const MPlan &pl) {
    long long x = g_exec_counter++;
    if (g_only >= 0 && x != g_only) return;
    using M = pgm::MappedPGMIndex<K, Eps, EpsRec>;
    Rng rng(pl.seed);
    Out &out = shard_file(x);
    // long runs relative to Epsilon: the generators are asked for a "virtual epsilon" so that run lengths vary around it
    std::vector<long long> off = gen_offsets(pl.kind, pl.n, Eps, rng);
    if (pl.kind == "longruns") {      // runs of length 1, 2^j +- 1, 2eps+1..2eps+3, 10*eps, one run ending at n
        off.clear();
        long long cur = 0;
        while (off.size() < pl.n) {
            size_t r;
            switch (rng.below(6)) { case 0: r = 1; break; case 1: r = (size_t(1) << rng.range(1, 6)) + rng.below(3) - 1; break;
                                    case 2: r = 2 * Eps + 1 + rng.below(3); break; case 3: r = 10 * Eps + rng.below(4); break;
                                    case 4: r = 2 + rng.below(3); break; default: r = 4 * Eps + 4 + rng.below(9); }
            for (size_t i = 0; i < r && off.size() < pl.n; ++i) off.push_back(cur);
            cur += 1 + (long long) rng.below(3);
        }
    }
    bool wide = false;
    std::vector<K> data = place<K>(off, pl.where, rng, wide);
    const size_t n = data.size();

    // queries
    using L = std::numeric_limits<K>;
    std::vector<K> queries;
    {
        auto add = [&](Wide<K> v) { if (v >= (Wide<K>) L::lowest() && v < (Wide<K>) L::max()) queries.push_back(K(v)); };
        add((Wide<K>) L::lowest()); add((Wide<K>) L::max() - 1); add((Wide<K>) data.front() - 1); add((Wide<K>) data.back() + 1);
        add((Wide<K>) data.front() - 100); add((Wide<K>) 0); add((Wide<K>) 1); add((Wide<K>) -1);
        std::vector<size_t> firsts;
        for (size_t i = 0; i < n; ++i) if (i == 0 || data[i] != data[i - 1]) firsts.push_back(i);
        size_t budget = 24;
        for (size_t j = 0; j < std::min(budget, firsts.size()); ++j) {
            size_t i = firsts.size() <= budget ? firsts[j] : firsts[rng.below(firsts.size())];
            add((Wide<K>) data[i]); add((Wide<K>) data[i] + 1); add((Wide<K>) data[i] - 1);
        }
        add((Wide<K>) data.back());
        std::sort(queries.begin(), queries.end());
        queries.erase(std::unique(queries.begin(), queries.end()), queries.end());
    }
    Norm<K> nm;
    {
        std::vector<Wide<K>> u;
        for (auto v : data) u.push_back((Wide<K>) v);
        for (auto v : queries) u.push_back((Wide<K>) v);
        u.push_back((Wide<K>) 0);
        std::sort(u.begin(), u.end());
        u.erase(std::unique(u.begin(), u.end()), u.end());
        nm.universe = std::move(u);
    }
    out.begin("Reset").num("x", x).str("cls", "Mapped").str("K", type_name<K>()).num("eps", Eps).num("epsrec", EpsRec)
        .num("n", (long long) n).str("gen", pl.kind).raw("tags", jstrs(pl.tags)).num("seed", (long long) (pl.seed & 0x7fffffff))
        .num("zero", nm((Wide<K>) 0)).end();
    {
        std::vector<long long> nd;
        for (auto v : data) nd.push_back(nm((Wide<K>) v));
        out.begin("Data").raw("data", jarr(nd)).end();
    }

    std::string dir = g_scratch + "/x" + std::to_string(x);
    mkdir(dir.c_str(), 0700);
    std::string f1 = dir + "/f1.pgm", f2 = dir + "/f2.pgm", raw = dir + "/raw.bin";
    {
        std::ofstream r(raw, std::ios::binary);
        r.write((const char *) data.data(), (std::streamsize) (n * sizeof(K)));
    }
    std::map<std::string, int> classes;   // file content -> class id
    auto log_file = [&](int fileno, const std::string &path, const char *when) {
        struct stat st;
        if (stat(path.c_str(), &st) != 0) { out.begin("File").num("file", fileno).str("when", when).num("exists", 0).num("cls", -1).num("hn", -1).num("hfirst", -1).num("hbytes", -1).num("size", -1).end(); return; }
        std::string bytes = slurp(path);
        auto it = classes.find(bytes);
        int cls = it == classes.end() ? (int) classes.size() : it->second;
        classes.emplace(bytes, cls);
        size_t hb = 0, hn = 0;
        K hf = 0;
        if (bytes.size() >= 2 * sizeof(size_t) + sizeof(K)) {
            memcpy(&hb, bytes.data(), sizeof(size_t));
            memcpy(&hn, bytes.data() + sizeof(size_t), sizeof(size_t));
            memcpy(&hf, bytes.data() + 2 * sizeof(size_t), sizeof(K));
        }
        // the keys stored after the header, as the file holds them
        bool keys_ok = hb + hn * sizeof(K) == bytes.size() && hn == n && memcmp(bytes.data() + hb, data.data(), n * sizeof(K)) == 0;
        out.begin("File").num("file", fileno).str("when", when).num("exists", 1).num("cls", cls).num("hn", (long long) std::min<size_t>(hn, 2000000000u))
            .num("hfirst", nm((Wide<K>) hf)).num("hbytes", (long long) std::min<size_t>(hb, 2000000000u)).num("size", (long long) bytes.size())
            .boolean("keys_at_end", keys_ok).end();
    };

    std::vector<std::pair<int, std::unique_ptr<M>>> open;   // (container id, object)
    int next_id = 0;
    auto probe = [&](int id, const M &m) {
        std::vector<long long> seq;
        size_t cnt = 0;
        for (auto it = m.begin(); it != m.end() && cnt < n + 5; ++it, ++cnt) seq.push_back(nm((Wide<K>) *it));
        out.begin("Seq").num("id", id).num("size", (long long) m.size()).raw("seq", jarr(seq)).end();
        // rows are logged in query order, but asked starting from a container-specific query (an answer may not depend on
        // which queries came before it, nor on there having been any), and the four operations in a rotating order
        std::vector<std::vector<long long>> rows(queries.size());
        for (size_t j = 0; j < queries.size(); ++j) {
            size_t qi = (j + (size_t) id * 5 + (size_t) (x % 7)) % queries.size();
            K q = queries[qi];
            long long lb = -1, ub = -1, ct = -1, co = -1;
            for (int step = 0; step < 4; ++step)
                switch ((step + id + (int) qi) % 4) {
                    case 0: lb = (long long) (m.lower_bound(q) - m.begin()); break;
                    case 1: ub = (long long) (m.upper_bound(q) - m.begin()); break;
                    case 2: ct = (long long) m.count(q); break;
                    default: co = m.contains(q) ? 1 : 0;
                }
            rows[qi] = {nm((Wide<K>) q), lb, ub, ct, co};
        }
        out.begin("Probe").num("id", id).raw("rows", jarr2(rows)).end();
    };
    for (int act : pl.order) {
        if (act == 4) {
            if (open.empty()) continue;
            int id = open.front().first;
            open.erase(open.begin());
            out.begin("Close").num("id", id).end();
            log_file(1, f1, "after_close"); log_file(2, f2, "after_close");
            continue;
        }
        int fileno = act == 0 || act == 2 || act == 6 ? 1 : 2;
        const std::string &path = fileno == 1 ? f1 : f2;
        struct stat st;
        if ((act == 2 || act == 3) && stat(path.c_str(), &st) != 0) continue;   // nothing to reopen yet
        int id = next_id++;
        std::unique_ptr<M> m;
        std::string res = outcome([&] {
            if (act == 0 || act == 5) m.reset(new M(data.begin(), data.end(), path));
            else if (act == 1 || act == 6) m.reset(new M(raw, path));
            else m.reset(new M(path));
        });
        out.begin("Create").num("id", id).str("kind", act == 0 || act == 5 ? "range" : act == 1 || act == 6 ? "raw" : "reopen").num("file", fileno).str("out", res).end();
        log_file(1, f1, "after_create"); log_file(2, f2, "after_create");
        if (res == "ok") { probe(id, *m); open.emplace_back(id, std::move(m)); }
    }
    // every container still open answers alike at the end
    for (auto &c : open) probe(c.first, *c.second);
    open.clear();
    log_file(1, f1, "end"); log_file(2, f2, "end");
    out.begin("End").end();
    remove(f1.c_str()); remove(f2.c_str()); remove(raw.c_str()); rmdir(dir.c_str());
}

struct Plan { std::string tier; uint64_t seed; std::vector<std::vector<int>> orders; };

template<typename K, size_t Eps, size_t EpsRec>
void drive(const Plan &p, uint64_t salt) {
    Rng rng(p.seed ^ salt);
    bool quick = p.tier == "quick";
    const std::vector<std::string> kinds = {"longruns", "runs", "steps", "random", "sawtooth"};
    int reps = quick ? 1 : 4;
    for (int rep = 0; rep < reps; ++rep)
        for (auto &kind : kinds)
            for (int where = 0; where < 3; ++where) {
                size_t n = 1 + rng.below(rng.chance(1, 4) ? 6 : (quick ? 250 : 1500));
                if (rng.chance(1, 8)) n = size_t(512) << rng.below(quick ? 2 : 3);   // whole pages of keys (4096 / sizeof(K) divides n): buffered writers end exactly on a chunk
                MPlan pl{kind, n, where, {kind}, rng.next(), {}};
                if (where == 1) pl.tags.push_back("at_lowest");
                if (where == 2) pl.tags.push_back("ends_at_max-1");
                {
                    size_t len = 3 + rng.below(4);
                    for (size_t i = 0; i < len; ++i) pl.order.push_back((int) rng.below(7));
                    if (rng.chance(1, 2)) { pl.order.insert(pl.order.begin(), (int) rng.below(2)); }
                }
                bool has_range = false, has_raw = false;
                for (int a : pl.order) { has_range |= a == 0 || a == 5; has_raw |= a == 1 || a == 6; }
                if (has_range && has_raw) pl.tags.push_back("both_constructors");
                run_mapped<K, Eps, EpsRec>(pl);
            }
}

int main(int argc, char **argv) {
    Args a(argc, argv);
    install_crash_handlers();
    g_outdir = a.get("out", ".");
    g_scratch = a.get("scratch", g_outdir);
    g_only = a.geti("only", -1);
    g_shards = (int) a.geti("shards", 4);
    // A process may hold few descriptors: a container that keeps one per construction (instead of releasing it once the
    // file is mapped) makes later constructions of the SAME run fail, which the trace specification rejects (C12: every
    // order of constructions yields containers that hold the sequence), instead of only after thousands of executions.
    {
        struct rlimit rl;
        if (getrlimit(RLIMIT_NOFILE, &rl) == 0) { rl.rlim_cur = std::min<rlim_t>(rl.rlim_cur, 48 + (rlim_t) g_shards); setrlimit(RLIMIT_NOFILE, &rl); }
    }
    Plan p{a.get("tier", "quick"), (uint64_t) a.geti("seed", 1), {}};
    std::string orders = a.get("orders", "");
    if (!orders.empty()) {   // one order per line: digits 0..4
        std::ifstream f(orders);
        std::string line;
        while (std::getline(f, line)) {
            std::vector<int> o;
            for (char c : line) if (c >= '0' && c <= '6') o.push_back(c - '0');
            if (!o.empty()) p.orders.push_back(o);
        }
    }
    if (!p.orders.empty()) {
        // spec -> code: every order generated by TLC is executed once, on small data, rotating over the configurations
        Rng rng(p.seed ^ 77);
        const std::vector<std::string> kinds = {"longruns", "runs", "random"};
        for (size_t i = 0; i < p.orders.size(); ++i) {
            MPlan pl{kinds[i % kinds.size()], 1 + rng.below(14), (int) (i % 3), {"tlc_order", kinds[i % kinds.size()]}, rng.next(), p.orders[i]};
            switch (i % 6) {
                case 0: run_mapped<uint32_t, 1, 0>(pl); break;
                case 1: run_mapped<int32_t, 1, 4>(pl); break;
                case 2: run_mapped<int64_t, 2, 4>(pl); break;
                case 3: run_mapped<uint64_t, 1, 4>(pl); break;
                case 4: run_mapped<int16_t, 2, 4>(pl); break;
                default: run_mapped<uint16_t, 1, 0>(pl); break;
            }
        }
    } else {
        drive<uint32_t, 1, 0>(p, 1);
        drive<uint32_t, 2, 4>(p, 2);
        drive<uint32_t, 8, 4>(p, 3);
        drive<uint32_t, 128, 4>(p, 4);
        drive<int32_t, 1, 4>(p, 5);
        drive<int32_t, 8, 0>(p, 6);
        drive<int64_t, 2, 4>(p, 7);
        drive<uint64_t, 1, 4>(p, 8);
        drive<uint64_t, 32, 0>(p, 9);
        drive<int16_t, 2, 4>(p, 10);
        drive<uint16_t, 1, 0>(p, 11);
    }
    for (auto &f : g_files) f->flush();
    return 0;
}
