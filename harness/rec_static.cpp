// Recorder for the static PGMIndex and the segmentation builder (C01 C02 C03 C04 C07).
// It builds PGMIndex<K,Eps,EpsRec,F> (and calls make_segmentation / make_segmentation_par directly) on generated
// inputs and logs: the data, every point handed to the builder (hook H1), the reported segments, the level layout,
// and for each query the returned range and the per-level descent (hook H2).  Validated by spec/StaticTrace.tla.
//
// Two normalisations (TLC has 32-bit integers):
//   "offset": every value is logged as value - base (small universes; TLC then checks the arithmetic properties too)
//   "rank"  : values are relabelled by their rank among all values of the execution (order-only properties)
#include "rec_common.hpp"
#include "access.hpp"
#include "static_common.hpp"

#include <cmath>
#include <memory>

#ifndef PART
#define PART 0
#endif

using namespace vrec;
using pgm::verif::Access;

static std::string g_outdir;
static long long g_only = -1;
static long long g_exec_counter = 0;
static int g_shards = 8;
static std::vector<std::unique_ptr<Out>> g_files;

static Out &shard_file(long long x) {
    if (g_files.empty()) {
        for (int i = 0; i < g_shards; ++i) {
            g_files.emplace_back(new Out(g_outdir + "/static_p" + std::to_string(PART) + "_s" + std::to_string(i) + ".ndjson"));
            open_outs().push_back(g_files.back().get());
            g_files.back()->begin("Config").str("cls", "PGMIndex").num("part", PART).end();
        }
    }
    return *g_files[size_t(x) % g_files.size()];
}

struct FedPoint { long double x; size_t y; bool acc; };
struct SegCallRec { size_t n, start, end, eps; std::vector<FedPoint> pts; };

template<typename K>
struct PointCollector {
    std::mutex mu;
    std::vector<SegCallRec> calls;
    void install() {
        pgm::verif::SegHooks<K>::on_point = [this](size_t n, size_t start, size_t end, size_t eps, K x, size_t y, bool acc) {
            std::lock_guard<std::mutex> g(mu);
            for (auto it = calls.rbegin(); it != calls.rend(); ++it)
                if (it->n == n && it->start == start && it->end == end && it->eps == eps && (it->pts.empty() || it->pts.back().y < y)) {
                    it->pts.push_back({(long double) x, y, acc});
                    return;
                }
            calls.push_back({n, start, end, eps, {{(long double) x, y, acc}}});
        };
    }
    void uninstall() { pgm::verif::SegHooks<K>::on_point = nullptr; }
};

struct ExecPlan {
    std::string kind;
    size_t n;
    int where;        // placement in the type
    int chunks;       // 0: whatever the library does (sequential below 2^15); >1: forced chunk count for level 0
    bool direct;      // also call make_segmentation(_par) directly and log the reported lines (C03)
    std::vector<std::string> tags;
    uint64_t seed;
    std::vector<long long> explicit_offsets;   // exhaustive small arrays
};

template<typename K, size_t Eps, size_t EpsRec, typename F>
void run_exec(const ExecPlan &pl) {
    long long x = g_exec_counter++;
    if (g_only >= 0 && x != g_only) return;
    using P = pgm::PGMIndex<K, Eps, EpsRec, F>;
    using Seg = std::decay_t<decltype(Access::segments(std::declval<P>())[0])>;
    Rng rng(pl.seed);
    Out &out = shard_file(x);

    size_t chunks_hint = pl.chunks > 1 ? (size_t) pl.chunks : 0;
#ifdef _OPENMP
    if (!chunks_hint && pl.n >= (1ull << 15)) chunks_hint = (size_t) std::min(std::min(omp_get_num_procs(), omp_get_max_threads()), 20);
#endif
    std::vector<long long> off = pl.explicit_offsets.empty() ? gen_offsets(pl.kind, pl.n, Eps, rng, chunks_hint) : pl.explicit_offsets;
    bool wide = false;
    std::vector<K> data = place<K>(off, pl.where, rng, wide);
    const size_t n = data.size();
    const K sentinel = Norm<K>::sentinel();

    // ---- build with the hooks installed ----
    PointCollector<K> pc;
    pc.install();
    pgm::verif::forced_parallelism = pl.chunks > 1 ? pl.chunks : 0;
    pgm::verif::forced_min_n = n;
    int real_chunks = 1;                  // what make_segmentation_par does on its own for this n
#ifdef _OPENMP
    if (n >= (1ull << 15)) real_chunks = std::min(std::min(omp_get_num_procs(), omp_get_max_threads()), 20);
#endif
    std::unique_ptr<P> idx;
    std::string res = outcome([&] { idx.reset(new P(data.begin(), data.end())); });
    pgm::verif::forced_parallelism = 0;
    // direct calls of the segmentation functions (reported lines for C03)
    using CS = typename pgm::internal::OptimalPiecewiseLinearModel<K, size_t>::CanonicalSegment;
    std::vector<CS> direct_segs;
    size_t direct_ret = 0;
    std::vector<SegCallRec> index_calls;
    std::vector<SegCallRec> direct_calls;
    if (pl.direct && res == "ok") {
        { std::lock_guard<std::mutex> g(pc.mu); index_calls = pc.calls; pc.calls.clear(); }
        auto in = [&](size_t i) { return data[i]; };
        auto o = [&](const CS &cs) { direct_segs.push_back(cs); };
        pgm::verif::forced_parallelism = pl.chunks > 1 ? pl.chunks : 0;
        pgm::verif::forced_min_n = n;
        if (pl.chunks > 1 || real_chunks > 1) direct_ret = pgm::internal::make_segmentation_par(n, Eps, in, o);
        else direct_ret = pgm::internal::make_segmentation(n, Eps, in, o);
        pgm::verif::forced_parallelism = 0;
        { std::lock_guard<std::mutex> g(pc.mu); direct_calls = pc.calls; pc.calls.clear(); }
    } else {
        std::lock_guard<std::mutex> g(pc.mu);
        index_calls = pc.calls;
        pc.calls.clear();
    }
    // the segmentation builder on its own, with epsilons that no index template uses (0 in particular), sequentially
    struct ExtraDirect { size_t eps; std::vector<CS> segs; size_t ret; std::vector<SegCallRec> calls; };
    std::vector<ExtraDirect> extra_direct;
    if (pl.direct && res == "ok" && n <= 600)
        for (size_t eps2 : {size_t(0), size_t(Eps == 1 ? 3 : 1)}) {
            ExtraDirect ed{eps2, {}, 0, {}};
            auto in = [&](size_t i) { return data[i]; };
            auto o = [&](const CS &cs) { ed.segs.push_back(cs); };
            ed.ret = pgm::internal::make_segmentation(n, eps2, in, o);
            { std::lock_guard<std::mutex> g(pc.mu); ed.calls = pc.calls; pc.calls.clear(); }
            extra_direct.push_back(std::move(ed));
        }
    pc.uninstall();

    // ---- queries ----
    std::vector<K> queries;
    {
        using L = std::numeric_limits<K>;
        auto add = [&](Wide<K> v) {
            if constexpr (std::is_floating_point_v<K>) { if (std::isfinite((long double) v)) queries.push_back(K(v)); }
            else if (v >= (Wide<K>) L::lowest() && v < (Wide<K>) L::max()) queries.push_back(K(v));
        };
        add((Wide<K>) L::lowest());
        if constexpr (std::is_floating_point_v<K>) add((Wide<K>) L::max()); else add((Wide<K>) L::max() - 1);
        add((Wide<K>) data.front() - 1); add((Wide<K>) data.back() + 1); add((Wide<K>) data.back() + 2);
        add((Wide<K>) data.front()); add((Wide<K>) data.back()); add((Wide<K>) 0);
        // a bounded sample of the distinct keys, plus every key next to a chunk boundary
        std::vector<size_t> picks;
        std::vector<size_t> firsts;
        for (size_t i = 0; i < n; ++i) if (i == 0 || data[i] != data[i - 1]) firsts.push_back(i);
        bool all_keys = pl.tags.size() > 1 && pl.tags[1] == "float_keys_narrow_slope";   // every key and its successor value
        size_t budget = n <= 40 || all_keys ? firsts.size() : (pl.tags.size() && pl.tags[0] == "real_chunked") ? 60 : 40;
        if (firsts.size() <= budget) picks = firsts;
        else for (size_t j = 0; j < budget; ++j) picks.push_back(firsts[rng.below(firsts.size())]);
        size_t cc = pl.chunks > 1 ? (size_t) pl.chunks : (size_t) real_chunks;
        if (cc > 1)
            for (size_t b = n / cc; b < n; b += n / cc)
                for (long long d = -2; d <= 1; ++d) if ((long long) b + d >= 0 && b + d < n) picks.push_back(size_t(b + d));
        for (size_t i : picks) {
            add((Wide<K>) data[i]);
            if constexpr (std::is_floating_point_v<K>) {
                add((Wide<K>) std::nextafter(data[i], L::infinity())); add((Wide<K>) std::nextafter(data[i], -L::infinity()));
                if (i + 1 < n) add(((Wide<K>) data[i] + (Wide<K>) data[i + 1]) / 2);
            } else {
                add((Wide<K>) data[i] + 1); add((Wide<K>) data[i] - 1);
                size_t nx = std::upper_bound(data.begin(), data.end(), data[i]) - data.begin();
                if (nx < n && data[nx] - data[i] > 3) add((Wide<K>) data[i] + ((Wide<K>) data[nx] - (Wide<K>) data[i]) / 2);
            }
        }
        // far queries: powers of two away from the ends
        if constexpr (!std::is_floating_point_v<K>) {
            for (int s = 8; s < (int) sizeof(K) * 8; s += 7) { add((Wide<K>) data.back() + ((Wide<K>) 1 << s)); add((Wide<K>) data.front() - ((Wide<K>) 1 << s)); }
        } else { add((Wide<K>) data.back() * 1e6L + 1e9L); add(-(Wide<K>) 1e30L); }
        std::sort(queries.begin(), queries.end());
        queries.erase(std::unique(queries.begin(), queries.end()), queries.end());
    }

    // ---- normalisation ----
    Norm<K> nm;
    bool small_span = !std::is_floating_point_v<K> && !wide && (long double) data.back() - (long double) data.front() < 12000 && n < 4000;
    nm.offset = small_span;
    if (nm.offset) nm.base = (Wide<K>) data.front() - 2;
    else {
        std::vector<Wide<K>> u;
        for (auto v : data) u.push_back((Wide<K>) v);
        for (auto v : queries) u.push_back((Wide<K>) v);
        u.push_back((Wide<K>) sentinel);
        for (auto *calls : {&index_calls, &direct_calls}) for (auto &c : *calls) for (auto &p : c.pts) u.push_back((Wide<K>) p.x);
        if (idx) for (auto &s : Access::segments(*idx)) u.push_back((Wide<K>) s.key);
        std::sort(u.begin(), u.end());
        u.erase(std::unique(u.begin(), u.end()), u.end());
        nm.universe = std::move(u);
    }

    size_t seg_size = sizeof(Seg);
    size_t threshold = 8 * 64 / seg_size;
    const char *route = EpsRec == 0 ? "binary_one_level" : EpsRec <= threshold ? "linear" : "binary_window";
    out.begin("Reset").num("x", x).str("cls", "PGMIndex").str("K", type_name<K>()).str("F", type_name<F>())
        .num("eps", Eps).num("epsrec", EpsRec).str("route", route).str("norm", nm.offset ? "offset" : "rank")
        .num("chunks", pl.chunks > 1 ? pl.chunks : real_chunks).num("n", (long long) n).num("sent", nm((Wide<K>) sentinel))
        .str("gen", pl.kind).raw("tags", jstrs(pl.tags)).num("seed", (long long) (pl.seed & 0x7fffffff)).end();

    {   // Build line
        std::vector<long long> nd;
        for (auto v : data) nd.push_back(nm((Wide<K>) v));
        auto &o = out.begin("Build").raw("data", jarr(nd)).str("out", res);
        if (res == "ok") {
            auto &segs = Access::segments(*idx);
            auto &offs = Access::levels_offsets(*idx);
            o.num("height", (long long) idx->height()).num("nsegs", (long long) idx->segments_count());
            std::string lv = "[";
            for (size_t l = 0; l + 1 < offs.size(); ++l) {
                if (l) lv += ",";
                std::vector<long long> ks, ics;
                std::vector<std::vector<long long>> fr;
                for (size_t j = offs[l]; j < offs[l + 1]; ++j) {
                    ks.push_back(nm((Wide<K>) segs[j].key));
                    ics.push_back((long long) segs[j].intercept);
                    long long sn = 0, sd = 0;
                    if (nm.offset) {
                        long long a, b;
                        if (to_fraction((long double) segs[j].slope, 4096, a, b) && F((long double) a / (long double) b) == segs[j].slope) { sn = a; sd = b; }
                    }
                    fr.push_back({sn, sd});
                }
                lv += "{\"keys\":" + jarr(ks) + ",\"ic\":" + jarr(ics) + ",\"sl\":" + jarr2(fr) + "}";
            }
            o.raw("levels", lv + "]");
        }
        o.end();
    }
    if (res != "ok") { out.begin("End").end(); return; }

    auto log_calls = [&](const std::vector<SegCallRec> &calls, const char *src, const std::vector<CS> *css, size_t ret, int call_chunks) {
        // calls of one make_segmentation_par invocation are logged in chunk order
        std::vector<const SegCallRec *> ord;
        for (auto &c : calls) ord.push_back(&c);
        std::stable_sort(ord.begin(), ord.end(), [](auto *a, auto *b) { return a->n != b->n ? a->n > b->n : a->start < b->start; });
        size_t i = 0;
        while (i < ord.size()) {
            size_t j = i;
            std::string cs = "[";
            while (j < ord.size() && ord[j]->n == ord[i]->n && ord[j]->eps == ord[i]->eps) {
                if (j > i) cs += ",";
                std::vector<std::vector<long long>> pts;
                for (auto &p : ord[j]->pts) pts.push_back({nm((Wide<K>) p.x), (long long) p.y, p.acc ? 1 : 0});
                cs += "{\"start\":" + std::to_string(ord[j]->start) + ",\"end\":" + std::to_string(ord[j]->end) + ",\"pts\":" + jarr2(pts) + "}";
                ++j;
            }
            cs += "]";
            auto &o = out.begin("SegCall").str("src", src).num("n", (long long) ord[i]->n).num("eps", (long long) ord[i]->eps)
                .num("level0", ord[i]->n == n && (ord[i]->eps == Eps || css) ? 1 : 0).num("chunks", ord[i]->n == n ? call_chunks : 1).raw("calls", cs);
            if (css && ord[i]->n == n) {
                // reported lines: slope as an exact fraction (recovered from the long double), rounded intercept
                std::vector<std::vector<long long>> sg;
                for (auto &c : *css) {
                    auto [slope, icpt] = c.get_floating_point_segment(c.get_first_x());
                    long long sn = 0, sd = 0, a, b;
                    if (nm.offset && to_fraction(slope, 16384, a, b) && std::fabs((long double) a / (long double) b - slope) <= 1e-15L * std::max<long double>(1, slope)) { sn = a; sd = b; }
                    sg.push_back({nm((Wide<K>) c.get_first_x()), sn, sd, (long long) icpt});
                }
                o.raw("segs", jarr2(sg)).num("ret", (long long) ret);
                // Projection for key magnitudes TLC's 32-bit integers cannot handle: per segment, the largest distance
                // between the reported line (exact slope dy/dx of the canonical segment, integer intercept as reported) and
                // one of the segment's own points, as r2 = floor(2 * |line(x) - y|) and whether 2 * |line(x) - y| is
                // exactly r2.  Whether that is within epsilon + 1/2 is decided by TLC (r2 < 2 eps + 1, or = and exact).
                if constexpr (std::is_integral_v<K>) {
                    std::vector<std::vector<long long>> res2;
                    size_t si = 0;
                    bool usable = true;
                    for (size_t jj = i; jj < j && usable; ++jj) {
                        auto &pts = ord[jj]->pts;
                        size_t pi = 0;
                        while (pi < pts.size()) {
                            if (si >= css->size()) { usable = false; break; }
                            const CS &c = (*css)[si++];
                            auto &rect = Access::rectangle(c);
                            size_t pe = pi + 1;
                            while (pe < pts.size() && pts[pe].acc) ++pe;          // the segment's points: up to the next refused one
                            __int128 dx, dy;
                            auto reported = c.get_floating_point_segment(c.get_first_x());
                            long long icpt = (long long) reported.second;
                            if (pe - pi == 1) { dx = 1; dy = 0; }
                            else { dx = (__int128) rect[3].x - (__int128) rect[1].x; dy = (__int128) rect[3].y - (__int128) rect[1].y; }
                            // the exact slope is known when the reported one is the rectangle's max-slope diagonal (what the code
                            // reports for integer keys); a different (still legitimate) choice of line is evaluated in long double,
                            // ties and the last 1e-12 of the distance in its favour
                            bool exact_known = dx > 0 && reported.first == (long double) dy / (long double) dx;
                            __int128 best = -1; bool best_exact = true;
                            for (size_t q = pi; q < pe; ++q) {
                                __int128 r2; bool ex;
                                if (exact_known) {
                                    __int128 num = dy * ((__int128) pts[q].x - (__int128) c.get_first_x()) + ((__int128) icpt - (__int128) pts[q].y) * dx;
                                    if (num < 0) num = -num;
                                    r2 = 2 * num / dx;
                                    ex = (2 * num) % dx == 0;
                                } else {
                                    long double v = reported.first * (pts[q].x - (long double) c.get_first_x()) + (long double) icpt - (long double) pts[q].y;
                                    v = std::fabs(v) * 2 * (1 - 1e-12L);
                                    r2 = v > 1.9e9L ? (__int128) 2000000000 : (__int128) std::floor(v);
                                    ex = true;
                                }
                                if (r2 > best || (r2 == best && !ex)) { best = r2; best_exact = ex; }
                            }
                            res2.push_back({(long long) std::min<__int128>(best, 2000000000), best_exact ? 1 : 0, (long long) (pe - pi)});
                            pi = pe;
                        }
                    }
                    if (usable && si == css->size()) o.raw("res2", jarr2(res2));
                }
            } else o.raw("segs", "[]").num("ret", -1);
            o.end();
            i = j;
        }
    };
    int used_chunks = pl.chunks > 1 ? pl.chunks : real_chunks;
    log_calls(index_calls, "index", nullptr, 0, used_chunks);
    if (pl.direct) log_calls(direct_calls, "direct", &direct_segs, direct_ret, used_chunks);
    for (auto &ed : extra_direct) log_calls(ed.calls, "direct", &ed.segs, ed.ret, 1);

    // ---- searches ----
    // An answer may depend neither on the queries made before it nor on there having been any: a few copies are taken
    // of the index that has not answered a query yet; each answers one boundary query as its first, after the main loop.
    std::vector<std::pair<K, std::unique_ptr<P>>> fresh;
    if (n <= 3000 && !queries.empty()) {
        std::vector<K> fq{queries.front(), queries.back(), data.front(), data.back(), K(0), queries[rng.below(queries.size())]};
        for (auto q : fq)
            if (std::find(queries.begin(), queries.end(), q) != queries.end()) fresh.emplace_back(q, std::make_unique<P>(*idx));
    }
    std::vector<pgm::verif::RouteStep> rl;
    std::vector<std::pair<K, P *>> plan;
    for (auto q : queries) plan.emplace_back(q, idx.get());
    // the same query twice in a row, and an early query again at the end
    if (!queries.empty()) { plan.emplace_back(queries.back(), idx.get()); plan.emplace_back(queries.front(), idx.get()); plan.emplace_back(queries[queries.size() / 2], idx.get()); }
    for (auto &f : fresh) plan.emplace_back(f.first, f.second.get());
    for (auto &qp : plan) {
        K q = qp.first;
        rl.clear();
        pgm::verif::route_log = &rl;
        auto r = qp.second->search(q);
        pgm::verif::route_log = nullptr;
        std::vector<std::vector<long long>> route_v;
        for (auto &s : rl) route_v.push_back({s.level, (long long) s.predicted, (long long) s.window_lo, (long long) s.window_hi, (long long) s.chosen, (long long) s.level_size});
        auto clampll = [](size_t v) { return (long long) std::min<size_t>(v, 2000000000u); };
        out.begin("Search").num("q", nm((Wide<K>) q)).num("pos", clampll(r.pos)).num("lo", clampll(r.lo)).num("hi", clampll(r.hi))
            .raw("route", jarr2(route_v)).end();
    }
    out.begin("End").end();
}

// ---- all sorted arrays of length 1..N over 0..U-1 -----------------------------------------------------------------
static void all_arrays(size_t U, size_t N, std::vector<long long> &cur, const std::function<void(const std::vector<long long> &)> &f) {
    if (!cur.empty()) f(cur);
    if (cur.size() == N) return;
    for (long long k = cur.empty() ? 0 : cur.back(); k < (long long) U; ++k) { cur.push_back(k); all_arrays(U, N, cur, f); cur.pop_back(); }
}

struct Plan { std::string tier; uint64_t seed; };

template<typename K, size_t Eps, size_t EpsRec, typename F>
void run_config(const Plan &p, int exhaustive_level) {
    Rng rng(p.seed ^ (Eps * 131 + EpsRec * 7 + sizeof(K) * 3 + sizeof(F)));
    bool quick = p.tier == "quick";
    // (1) exhaustive small universe
    if (exhaustive_level > 0) {
        size_t U = exhaustive_level == 2 ? 8 : 6, N = exhaustive_level == 2 ? 5 : 4;
        if (!quick) { U += 2; N += 2; }
        std::vector<long long> cur;
        int where_cycle = 0;
        all_arrays(U, N, cur, [&](const std::vector<long long> &a) {
            ExecPlan pl{"exhaustive", a.size(), where_cycle++ % 3, 0, true, {"exhaustive"}, rng.next(), a};
            if (a.size() >= 4 && rng.chance(1, 4)) { pl.chunks = 2 + (int) rng.below(2); pl.tags.push_back("forced_chunks"); }
            run_exec<K, Eps, EpsRec, F>(pl);
        });
    }
    // (2) structured random inputs
    const std::vector<std::string> kinds = {"runs", "sawtooth", "collinear", "steps", "random", "seams", "runs_uniform", "convex", "concave", "curve_far_dense", "one_curve"};
    int reps = quick ? 1 : 4;
    for (int rep = 0; rep < reps; ++rep)
        for (auto &kind : kinds) {
            bool curve = kind == "convex" || kind == "concave" || kind == "curve_far_dense" || kind == "one_curve";
            for (int where = 0; where < 6; ++where) {
                // curves need enough keys for hulls of more than a hundred vertices inside one segment
                size_t nmax = curve && Eps >= 16 ? std::max<size_t>(quick ? 300 : 3000, std::min<size_t>(12 * Eps, 4096)) : quick ? 300 : 3000;
                if (curve && where >= 3 && where != 5) continue;
                size_t n = kind == "one_curve" ? std::min<size_t>(3900, 5 * Eps + 12 + rng.below(4 * Eps + 8)) : curve ? nmax / 2 + rng.below(nmax / 2 + 1) : where >= 3 ? 20 + rng.below(nmax) : 1 + rng.below(rng.chance(1, 3) ? 12 : nmax);
                ExecPlan pl{kind, n, where, 0, where < 3, {kind}, rng.next(), {}};
                if (where == 1) pl.tags.push_back("at_lowest");
                if (where == 2) pl.tags.push_back("ends_at_max-1");
                if (where == 3) pl.tags.push_back("wide");
                if (where == 4) pl.tags.push_back("clustered");
                if (where == 5) pl.tags.push_back("full_span");
                run_exec<K, Eps, EpsRec, F>(pl);
            }
            // (3) forced chunking with seams inside / at the ends of duplicate runs
            for (int c : {2, 3, 5, 8, 20}) {
                if (quick && rng.chance(1, 2)) continue;
                size_t n = std::max<size_t>((size_t) c * 2, 8 + rng.below(quick ? 200 : 400));
                ExecPlan pl{kind, n, (int) rng.below(3), c, true, {kind, "forced_chunks"}, rng.next(), {}};
                run_exec<K, Eps, EpsRec, F>(pl);
            }
        }
}

// the library's own chunked path: n >= 2^15 with the OpenMP thread count of the environment
template<typename K, size_t Eps, size_t EpsRec, typename F>
void run_real_chunked(const Plan &p, int count) {
    Rng rng(p.seed ^ 0xabcdef ^ (Eps * 977 + sizeof(K)));
    for (int i = 0; i < count; ++i) {
        size_t n = (1u << 15) + (i % 2 ? 1 + rng.below(700) : 0);
        ExecPlan pl{i % 3 == 2 ? "runs" : "seams", n, (int) rng.below(3), 0, true, {"real_chunked", i % 3 == 2 ? "runs" : "seams"}, rng.next(), {}};
        run_exec<K, Eps, EpsRec, F>(pl);
    }
}

// thorough tier: larger arrays so that big epsilons produce several segments and several levels (order-only checks)
template<typename K, size_t Eps, size_t EpsRec, typename F>
void run_big(const Plan &p, int count) {
    if (p.tier == "quick") return;
    Rng rng(p.seed ^ 0xb16 ^ (Eps * 31 + sizeof(K)));
    const std::vector<std::string> kinds = {"runs_uniform", "steps", "random", "collinear"};
    for (int i = 0; i < count; ++i) {
        size_t n = 60000 + rng.below(140000);
        ExecPlan pl{kinds[(size_t) i % kinds.size()], n, 3 + (i % 2), 0, false, {"big", kinds[(size_t) i % kinds.size()]}, rng.next(), {}};
        run_exec<K, Eps, EpsRec, F>(pl);
    }
}

// the windowed binary-search routing path with Epsilon > EpsilonRecursive on levels of more than 2*EpsilonRecursive+3 segments
template<typename K, size_t Eps, size_t EpsRec, typename F>
void run_binary_path(const Plan &p, int count, size_t nmin) {
    Rng rng(p.seed ^ 0xb1a ^ (Eps * 17 + EpsRec));
    const std::vector<std::string> kinds = {"clusters_big", "steps", "runs_uniform", "collinear"};
    for (int i = 0; i < (p.tier == "quick" ? count + 1 : 3 * count); ++i) {
        size_t n = nmin + rng.below(nmin / 2);
        ExecPlan pl{kinds[(size_t) i % kinds.size()], n, i % 4 == 0 ? 0 : 3 + (i % 2), 0, false, {"binary_path_many_segments", kinds[(size_t) i % kinds.size()]}, rng.next(), {}};
        run_exec<K, Eps, EpsRec, F>(pl);
    }
}

int main(int argc, char **argv) {
    Args a(argc, argv);
    install_crash_handlers();
    g_outdir = a.get("out", ".");
    g_only = a.geti("only", -1);
    g_shards = (int) a.geti("shards", 6);
    Plan p{a.get("tier", "quick"), (uint64_t) a.geti("seed", 1)};
    // the instantiated configurations are split in parts so that they compile in parallel
#if PART == 0
    run_big<uint32_t, 64, 4, float>(p, 2);
    run_big<uint32_t, 1024, 1024, float>(p, 2);
    run_real_chunked<uint32_t, 16, 4, float>(p, p.tier == "quick" ? 1 : 6);
    run_real_chunked<uint32_t, 1, 1, float>(p, p.tier == "quick" ? 1 : 6);
    run_config<uint32_t, 1, 0, float>(p, 2);
    run_config<uint32_t, 1, 1, float>(p, 2);
    run_config<uint32_t, 2, 1, float>(p, 1);
    run_config<uint32_t, 3, 2, float>(p, 1);
    run_config<uint32_t, 4, 4, float>(p, 0);
    run_config<uint32_t, 8, 4, float>(p, 0);
    run_config<uint32_t, 16, 4, float>(p, 0);
    run_config<uint32_t, 64, 4, float>(p, 0);
    run_config<uint32_t, 2, 64, float>(p, 1);
    run_config<uint32_t, 1024, 1024, float>(p, 0);
    run_config<uint16_t, 1, 1, float>(p, 1);
    run_config<uint16_t, 16, 4, float>(p, 0);
#elif PART == 1
    run_binary_path<uint64_t, 32, 26, double>(p, 2, 12000);
    run_binary_path<uint32_t, 64, 43, float>(p, 1, 30000);
    run_big<uint64_t, 16, 4, float>(p, 2);
    run_big<uint64_t, 2, 64, float>(p, 1);
    run_real_chunked<uint64_t, 4, 4, float>(p, p.tier == "quick" ? 1 : 6);
    run_config<uint64_t, 1, 0, float>(p, 1);
    run_config<uint64_t, 2, 1, float>(p, 1);
    run_config<uint64_t, 4, 4, float>(p, 0);
    run_config<uint64_t, 64, 4, float>(p, 0);
    run_config<uint64_t, 2, 64, float>(p, 1);
    run_config<uint64_t, 1, 1, double>(p, 2);
    run_config<int32_t, 1, 0, float>(p, 1);
    run_config<int32_t, 2, 1, float>(p, 1);
    run_config<int32_t, 8, 4, float>(p, 0);
    run_config<uint8_t, 1, 1, float>(p, 1);
    run_config<uint8_t, 4, 4, float>(p, 0);
    run_config<int8_t, 2, 1, float>(p, 1);
#else
    {   // floating keys with slopes of the narrower type and small epsilon: the rounding slack is tightest here
        Rng frng(p.seed ^ 0xf10a7);
        for (int i = 0; i < (p.tier == "quick" ? 40 : 200); ++i) {
            ExecPlan pl{i % 3 ? "runs_uniform" : "runs", 300 + frng.below(400), i % 4 == 3 ? 0 : 1, 0, false, {"runs", "float_keys_narrow_slope"}, frng.next(), {}};
            if (i % 2) run_exec<double, 2, 1, float>(pl); else run_exec<double, 1, 1, float>(pl);
        }
    }
    run_big<int64_t, 128, 4, float>(p, 2);
    run_big<double, 16, 4, float>(p, 1);
    run_real_chunked<int64_t, 64, 4, float>(p, p.tier == "quick" ? 1 : 6);
    run_config<int64_t, 1, 1, float>(p, 2);
    run_config<int64_t, 3, 2, float>(p, 1);
    run_config<int64_t, 16, 4, float>(p, 0);
    run_config<int64_t, 1024, 1024, float>(p, 0);
    run_config<int64_t, 2, 64, double>(p, 1);
    run_config<int16_t, 3, 2, float>(p, 1);
    run_config<float, 1, 1, float>(p, 1);
    run_config<float, 16, 4, float>(p, 0);
    run_config<double, 2, 1, float>(p, 1);
    run_config<double, 1, 1, float>(p, 0);
    run_config<double, 16, 4, double>(p, 0);
    run_config<uint32_t, 2, 2, double>(p, 1);
#endif
    for (auto &f : g_files) f->flush();
    return 0;
}
