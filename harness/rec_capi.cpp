// Recorder for C18: a C-linkage client of c-interface/cpgm.{h,cpp} (compiled from /repo's working tree).
//   static : pgm_index_<type>_create/search/destroy with a run-time epsilon -> trace in the StaticTrace format
//   dynamic: dynamic_pgm_index_<type>_* call sequences                      -> trace in the DynTrace format (CObs lines)
#include "rec_common.hpp"
#include <omp.h>
#include "static_common.hpp"
extern "C" {
#include "cpgm.h"
}

#include <memory>

static std::string g_outdir;
static long long g_only = -1, g_exec_counter = 0;

struct StaticApi32 { using K = int32_t; static constexpr const char *name = "int32";
    static auto create(const K *a, size_t n, size_t e) { return pgm_index_int32_create(a, n, e); } static void destroy(pgm_index_int32_t *p) { pgm_index_int32_destroy(p); }
    static approx_pos_t search(pgm_index_int32_t *p, K q) { return pgm_index_int32_search(p, q); } };
struct StaticApi64 { using K = int64_t; static constexpr const char *name = "int64";
    static auto create(const K *a, size_t n, size_t e) { return pgm_index_int64_create(a, n, e); } static void destroy(pgm_index_int64_t *p) { pgm_index_int64_destroy(p); }
    static approx_pos_t search(pgm_index_int64_t *p, K q) { return pgm_index_int64_search(p, q); } };
struct StaticApiU32 { using K = uint32_t; static constexpr const char *name = "uint32";
    static auto create(const K *a, size_t n, size_t e) { return pgm_index_uint32_create(a, n, e); } static void destroy(pgm_index_uint32_t *p) { pgm_index_uint32_destroy(p); }
    static approx_pos_t search(pgm_index_uint32_t *p, K q) { return pgm_index_uint32_search(p, q); } };
struct StaticApiU64 { using K = uint64_t; static constexpr const char *name = "uint64";
    static auto create(const K *a, size_t n, size_t e) { return pgm_index_uint64_create(a, n, e); } static void destroy(pgm_index_uint64_t *p) { pgm_index_uint64_destroy(p); }
    static approx_pos_t search(pgm_index_uint64_t *p, K q) { return pgm_index_uint64_search(p, q); } };

static long long clampll(size_t v) { return (long long) std::min<size_t>(v, 2000000000u); }

template<typename Api>
void run_static(Out &out, const std::string &kind, size_t n, int where, size_t eps, uint64_t seed, const std::vector<long long> &explicit_off) {
    long long x = g_exec_counter++;
    if (g_only >= 0 && x != g_only) return;
    using K = typename Api::K;
    using L = std::numeric_limits<K>;
    Rng rng(seed);
    std::vector<long long> off = explicit_off.empty() ? gen_offsets(kind, n, std::min<size_t>(eps, 64), rng, n >= (size_t(1) << 15) ? (size_t) std::min(std::min(omp_get_num_procs(), omp_get_max_threads()), 20) : 0) : explicit_off;
    bool wide = false;
    std::vector<K> data = place<K>(off, where, rng, wide);
    n = data.size();
    std::vector<K> queries;
    auto add = [&](Wide<K> v) { if (v >= (Wide<K>) L::lowest() && v < (Wide<K>) L::max()) queries.push_back(K(v)); };
    add((Wide<K>) L::lowest()); add((Wide<K>) L::max() - 1); add((Wide<K>) data.front() - 1); add((Wide<K>) data.back() + 1); add((Wide<K>) data.back() + 2);
    {
        std::vector<size_t> firsts;
        for (size_t i = 0; i < n; ++i) if (i == 0 || data[i] != data[i - 1]) firsts.push_back(i);
        size_t budget = std::min<size_t>(firsts.size(), 40);
        for (size_t j = 0; j < budget; ++j) {
            size_t i = firsts.size() <= budget ? firsts[j] : firsts[rng.below(firsts.size())];
            add((Wide<K>) data[i]); add((Wide<K>) data[i] + 1); add((Wide<K>) data[i] - 1);
            size_t nx = std::upper_bound(data.begin(), data.end(), data[i]) - data.begin();
            if (nx < n && (Wide<K>) data[nx] - (Wide<K>) data[i] > 3) add((Wide<K>) data[i] + ((Wide<K>) data[nx] - (Wide<K>) data[i]) / 2);
        }
        for (int s = 8; s < (int) sizeof(K) * 8; s += 7) { add((Wide<K>) data.back() + ((Wide<K>) 1 << s)); add((Wide<K>) data.front() - ((Wide<K>) 1 << s)); }
        if (n >= (size_t(1) << 15)) {       // every key next to a boundary of the library's own chunks
            size_t real = (size_t) std::min(std::min(omp_get_num_procs(), omp_get_max_threads()), 20);
            for (size_t b = n / real; real > 1 && b < n; b += n / real)
                for (long long d = -2; d <= 1; ++d) { size_t i = size_t((long long) b + d); if (i < n) { add((Wide<K>) data[i]); add((Wide<K>) data[i] + 1); add((Wide<K>) data[i] - 1); } }
        }
        std::sort(queries.begin(), queries.end());
        queries.erase(std::unique(queries.begin(), queries.end()), queries.end());
    }
    Norm<K> nm;
    {
        std::vector<Wide<K>> u;
        for (auto v : data) u.push_back((Wide<K>) v);
        for (auto v : queries) u.push_back((Wide<K>) v);
        u.push_back((Wide<K>) L::max());
        std::sort(u.begin(), u.end());
        u.erase(std::unique(u.begin(), u.end()), u.end());
        nm.universe = std::move(u);
    }
    std::vector<std::string> tags = {kind, "c_api"};
    out.begin("Reset").num("x", x).str("cls", "CApi").str("prop", "C18").str("K", Api::name).str("F", "f32").num("eps", (long long) eps).num("epsrec", 4)
        .str("route", "linear").str("norm", "rank").num("chunks", 1).num("n", (long long) n).num("sent", nm((Wide<K>) L::max()))
        .num("T", 0).num("bits", 0).str("gen", kind).raw("tags", jstrs(tags)).num("seed", (long long) (seed & 0x7fffffff)).end();
    auto *idx = Api::create(data.data(), n, eps);
    std::vector<long long> nd;
    for (auto v : data) nd.push_back(nm((Wide<K>) v));
    out.begin("Build").raw("data", jarr(nd)).str("out", idx ? "ok" : "null").num("height", 0).num("nsegs", 0).raw("levels", "[]").raw("skeys", "[]").raw("top", "[]").end();
    if (!idx) { out.begin("End").end(); return; }
    for (auto q : queries) {
        auto r = Api::search(idx, q);
        out.begin("Search").num("q", nm((Wide<K>) q)).num("pos", clampll(r.pos)).num("lo", clampll(r.lo)).num("hi", clampll(r.hi))
            .raw("route", "[]").num("bk", -1).num("seg", -1).raw("sl", "[]").raw("pr", "[]").end();
    }
    Api::destroy(idx);
    out.begin("End").end();
}

#define DYN_API(type, T)                                                                                               \
    struct DynApi_##type { using K = T; using Pair = pair_##type##_t; using Ptr = dynamic_pgm_index_##type##_t *;      \
        static constexpr const char *name = #type;                                                                     \
        static Ptr create(const Pair *a, size_t n) { return dynamic_pgm_index_##type##_create(a, n); }                 \
        static Ptr create_empty() { return dynamic_pgm_index_##type##_create_empty(); }                                \
        static void destroy(Ptr p) { dynamic_pgm_index_##type##_destroy(p); }                                          \
        static size_t size(Ptr p) { return dynamic_pgm_index_##type##_size(p); }                                       \
        static void put(Ptr p, K k, K v) { dynamic_pgm_index_##type##_insert_or_assign(p, k, v); }                     \
        static void erase(Ptr p, K k) { dynamic_pgm_index_##type##_erase(p, k); }                                      \
        static bool find(Ptr p, K k, K *v) { return dynamic_pgm_index_##type##_find(p, k, v); }                        \
        static void *begin(Ptr p) { return dynamic_pgm_index_##type##_begin(p); }                                      \
        static void *lower_bound(Ptr p, K q) { return dynamic_pgm_index_##type##_lower_bound(p, q); }                  \
        static bool next(Ptr p, void *it, K *k, K *v) { return dynamic_pgm_index_##type##_iterator_next(p, it, k, v); } \
        static void it_destroy(void *it) { dynamic_pgm_index_##type##_iterator_destroy(it); } };
DYN_API(int32, int32_t) DYN_API(int64, int64_t) DYN_API(uint32, uint32_t) DYN_API(uint64, uint64_t)

template<typename Api>
void run_dynamic(Out &out, size_t U, size_t nops, size_t nbulk, int layout, uint64_t seed, bool unsorted_bulk) {
    long long x = g_exec_counter++;
    if (g_only >= 0 && x != g_only) return;
    using K = typename Api::K;
    using L = std::numeric_limits<K>;
    Rng rng(seed);
    std::set<K> s;
    if (layout == 1) { K b = L::lowest(); s.insert(b); while (s.size() < U) { b = K(b + 1 + rng.below(3)); s.insert(b); } }
    else if (layout == 2) { K b = K(L::max() - 1); s.insert(b); while (s.size() < U) { b = K(b - 1 - rng.below(3)); s.insert(b); } }
    else { while (s.size() < U) { K k = K(rng.next()); if (k != L::max()) s.insert(k); } }
    std::vector<K> keys(s.begin(), s.end());
    std::map<K, long long> rank;
    for (size_t i = 0; i < keys.size(); ++i) rank[keys[i]] = (long long) i;
    auto nk = [&](K k) { auto it = rank.find(k); return it == rank.end() ? 999999LL : it->second; };
    std::vector<std::string> tags = {"c_api", unsorted_bulk ? "unsorted_bulk" : (nbulk ? "bulk" : "empty")};
    out.begin("Reset").num("x", x).str("K", Api::name).str("V", Api::name).num("eps", 16).num("nkeys", (long long) U)
        .str("hist", "c_api").raw("tags", jstrs(tags)).num("seed", (long long) (seed & 0x7fffffff)).end();
    // construction
    std::vector<typename Api::Pair> pairs;
    std::vector<std::vector<long long>> logged;
    {
        std::vector<long long> bk;
        for (size_t i = 0; i < nbulk; ++i) bk.push_back((long long) rng.below(U));
        std::sort(bk.begin(), bk.end());
        if (unsorted_bulk && bk.size() >= 2) { size_t p = 1 + rng.below(bk.size() - 1); if (bk[p - 1] == bk[p]) bk[p - 1] = std::min<long long>(U - 1, bk[p] + 1); std::swap(bk[p - 1], bk[p]); }
        long long v = 1;
        for (auto k : bk) { typename Api::Pair pr; pr.first = keys[k]; pr.second = K(v); pairs.push_back(pr); logged.push_back({k, v}); v = v % 100 + 1; }
    }
    typename Api::Ptr d = nbulk ? Api::create(pairs.data(), pairs.size()) : Api::create_empty();
    out.begin("Bulk").raw("pairs", jarr2(logged)).str("out", d ? "ok" : "invalid_argument").end();
    if (!d) { out.begin("End").end(); return; }
    auto traverse = [&](void *it, size_t limit) {
        std::vector<std::vector<long long>> r;
        K k, v;
        size_t c = 0;
        while (c < limit && Api::next(d, it, &k, &v)) { r.push_back({nk(k), (long long) v}); ++c; }
        Api::it_destroy(it);
        return r;
    };
    // light: a short observation (size, a few finds, two traversals) made right after single calls, so that a result
    // that is only refreshed by SOME of the updating calls is seen stale
    auto obs = [&](bool light) {
        std::vector<std::vector<long long>> finds;
        for (size_t j = 0; j < (light ? 6 : 40); ++j) {
            size_t i = rng.below(U);
            K v = 0;
            bool f = Api::find(d, keys[i], &v);
            finds.push_back({(long long) i, f ? (long long) v : 0});
        }
        std::string lbs = "[";
        for (size_t j = 0; j < (light ? 2 : 12); ++j) {
            size_t i = j == 0 ? 0 : j == 1 ? U - 1 : rng.below(U);
            if (j) lbs += ",";
            lbs += "{\"q\":" + std::to_string(i) + ",\"limit\":25,\"r\":" + jarr2(traverse(Api::lower_bound(d, keys[i]), 25)) + "}";
        }
        lbs += "]";
        size_t blimit = light ? 6 : 60;
        out.begin("CObs").raw("find", jarr2(finds)).raw("lbs", lbs).raw("begin", jarr2(traverse(Api::begin(d), blimit))).num("blimit", (long long) blimit)
            .num("size", (long long) Api::size(d)).end();
    };
    obs(false);
    long long val = 1;
    for (size_t i = 0; i < nops; ++i) {
        long long k = (long long) rng.below(U);
        if (rng.chance(3, 10)) { Api::erase(d, keys[k]); out.begin("Del").num("k", k).str("out", "ok").end(); }
        else { Api::put(d, keys[k], K(val)); out.begin("Put").num("k", k).num("v", val).str("out", "ok").end(); val = val % 100 + 1; }
        if ((i + 1) % 97 == 0) obs(false);
        else if ((i + 1) % 97 <= 4 && i > 4) obs(true);      // after each of the four calls that follow a full observation
    }
    obs(false);
    Api::destroy(d);
    out.begin("End").end();
}

static void all_arrays(size_t U, size_t N, std::vector<long long> &cur, const std::function<void(const std::vector<long long> &)> &f) {
    if (!cur.empty()) f(cur);
    if (cur.size() == N) return;
    for (long long k = cur.empty() ? 0 : cur.back(); k < (long long) U; ++k) { cur.push_back(k); all_arrays(U, N, cur, f); cur.pop_back(); }
}

int main(int argc, char **argv) {
    Args a(argc, argv);
    install_crash_handlers();
    g_outdir = a.get("out", ".");
    g_only = a.geti("only", -1);
    std::string tier = a.get("tier", "quick");
    std::string part = a.get("part", "static");
    Rng rng((uint64_t) a.geti("seed", 1));
    bool quick = tier == "quick";
    if (part == "static") {
        std::vector<std::unique_ptr<Out>> outs;
        for (int i = 0; i < 6; ++i) { outs.emplace_back(new Out(g_outdir + "/capi_static_s" + std::to_string(i) + ".ndjson")); open_outs().push_back(outs.back().get()); outs.back()->begin("Config").str("cls", "CApi").end(); }
        auto O = [&]() -> Out & { return *outs[size_t(g_exec_counter) % outs.size()]; };
        const std::vector<std::string> kinds = {"runs", "sawtooth", "collinear", "steps", "random"};
        std::vector<long long> cur;
        int w = 0;
        all_arrays(quick ? 6 : 8, quick ? 4 : 5, cur, [&](const std::vector<long long> &arr) {
            size_t eps = std::vector<size_t>{1, 2, 7}[w % 3];
            switch (w++ % 4) { case 0: run_static<StaticApi32>(O(), "exhaustive", 0, w % 3, eps, rng.next(), arr); break; case 1: run_static<StaticApi64>(O(), "exhaustive", 0, w % 3, eps, rng.next(), arr); break;
                               case 2: run_static<StaticApiU32>(O(), "exhaustive", 0, w % 3, eps, rng.next(), arr); break; default: run_static<StaticApiU64>(O(), "exhaustive", 0, w % 3, eps, rng.next(), arr); }
        });
        for (int rep = 0; rep < (quick ? 1 : 4); ++rep)
            for (size_t eps : {1, 2, 7, 64, 4096})
                for (auto &kind : kinds)
                    for (int where = 0; where < 4; ++where) {
                        size_t n = 1 + rng.below(rng.chance(1, 3) ? 12 : (quick ? 400 : 3000));
                        switch ((where + rep + (int) eps) % 4) { case 0: run_static<StaticApi32>(O(), kind, n, where, eps, rng.next(), {}); break; case 1: run_static<StaticApi64>(O(), kind, n, where, eps, rng.next(), {}); break;
                                                                 case 2: run_static<StaticApiU32>(O(), kind, n, where, eps, rng.next(), {}); break; default: run_static<StaticApiU64>(O(), kind, n, where, eps, rng.next(), {}); }
                    }
        // the library's own chunked build (n >= 2^15, threads from the environment), runs of duplicates around the seams
        for (int rep = 0; rep < (quick ? 1 : 3); ++rep) {
            run_static<StaticApi32>(O(), "seams", 32768 + rng.below(6000), 0, 1, rng.next(), {});
            run_static<StaticApiU64>(O(), "seams", 32768 + rng.below(6000), 2, 7, rng.next(), {});
            run_static<StaticApi64>(O(), "seams", 32768 + rng.below(6000), 1, 64, rng.next(), {});
            run_static<StaticApiU32>(O(), "seams", 32768 + rng.below(6000), 0, 2, rng.next(), {});
        }
        for (auto &o : outs) o->flush();
    } else {
        // default configuration of the wrapped class: base 8, buffer of 585 entries, no indexed level below 2^24
        std::vector<std::unique_ptr<Out>> outs;
        for (int i = 0; i < 4; ++i) {
            outs.emplace_back(new Out(g_outdir + "/dyn_capi_s" + std::to_string(i) + ".ndjson")); open_outs().push_back(outs.back().get());
            outs.back()->begin("Config").str("cls", "Dynamic").num("base", 8).num("minl", 3).num("mini", 8).num("maxl", 10).num("nkeys", 2048).num("model", 0).end();
        }
        int reps = quick ? 2 : 8;
        for (int rep = 0; rep < reps; ++rep) {
            Out &o = *outs[size_t(rep) % outs.size()];
            run_dynamic<DynApi_int32>(o, 1500, 2600, 0, rep % 3, rng.next(), false);
            run_dynamic<DynApi_uint64>(o, 1200, 2400, 700, (rep + 1) % 3, rng.next(), false);
            run_dynamic<DynApi_int64>(o, 900, 1500, 20, (rep + 2) % 3, rng.next(), false);
            run_dynamic<DynApi_uint32>(o, 2000, 3000, 1200, rep % 3, rng.next(), false);
            run_dynamic<DynApi_uint32>(o, 30, 40, 12, rep % 3, rng.next(), true);
            run_dynamic<DynApi_int64>(o, 12, 60, 3, rep % 3, rng.next(), false);
        }
        for (auto &o : outs) o->flush();
    }
    return 0;
}
