// Definition of pgm::verif::Access, the struct that the classes of /repo befriend under -DPGM_INDEX_VERIF.
// It only READS private state (projection of the implementation state onto the specification's variables).
#pragma once

#include "pgm/pgm_index.hpp"
#include "pgm/pgm_index_dynamic.hpp"
#include "pgm/pgm_index_variants.hpp"

#include <cstring>
#include <vector>

namespace pgm::verif {

struct Access {
    // ---- PGMIndex ----
    template<typename P> static const auto &segments(const P &p) { return p.segments; }
    template<typename P> static const auto &levels_offsets(const P &p) { return p.levels_offsets; }
    template<typename P> static size_t n(const P &p) { return p.n; }
    template<typename P> static auto first_key(const P &p) { return p.first_key; }

    /// true iff two static indexes hold the same structure (what "built over exactly these keys" is compared by)
    template<typename P> static bool same_index(const P &a, const P &b) {
        if (a.segments.size() != b.segments.size() || a.levels_offsets != b.levels_offsets) return false;
        if (a.segments.empty()) return true;
        if (a.n != b.n || a.first_key != b.first_key) return false;
        return std::memcmp(a.segments.data(), b.segments.data(), a.segments.size() * sizeof(a.segments[0])) == 0;
    }
    template<typename P> static bool is_reset(const P &p) { return p.segments.empty() && p.levels_offsets.empty(); }

    // ---- CanonicalSegment ----
    template<typename CS> static const auto &rectangle(const CS &cs) { return cs.rectangle; }

    // ---- DynamicPGMIndex ----
    template<typename D> static const auto &levels(const D &d) { return d.levels; }
    template<typename D> static const auto &pgms(const D &d) { return d.pgms; }
    template<typename D> static unsigned used_levels(const D &d) { return d.used_levels; }
    template<typename D> static unsigned min_level(const D &d) { return d.min_level; }
    template<typename D> static unsigned min_index_level(const D &d) { return d.min_index_level; }
    template<typename D> static size_t buffer_max_size(const D &d) { return d.buffer_max_size; }
    template<typename D> static unsigned base(const D &d) { return d.base; }

    // ---- internal::LoserTree (hook H5) ----
    template<typename LT> static const auto &loser_cells(const LT &t) { return t.losers; }
    template<typename LT> static size_t loser_k(const LT &t) { return t.k; }

    // ---- CompressedPGMIndex ----
    template<typename C> static const auto &clevels(const C &c) { return c.levels; }
    template<typename C> static const auto &slopes_table(const C &c) { return c.slopes_table; }
    template<typename C> static size_t croot_range(const C &c) { return c.root_range; }

    // ---- EliasFanoPGMIndex ----
    template<typename E> static auto ef_pred(const E &e, uint64_t i) { return e.pred(i); }
    template<typename E> static const auto &ef(const E &e) { return e.ef; }
    template<typename E> static const auto &ef_segments(const E &e) { return e.segments; }
    template<typename E> static auto ef_first_key(const E &e) { return e.first_key; }

    // ---- MultidimensionalPGMIndex ----
    template<typename M> static const auto &md_data(const M &m) { return m.data; }
    template<typename M> static const auto &md_pgm(const M &m) { return m.pgm; }
    template<typename M, typename T> static T md_bigmin(const T &x, const T &mn, const T &mx) { return M::bigmin(x, mn, mx); }
    template<typename M, typename P> static auto md_encode(const P &p) { return M::encode(p); }
};

} // namespace pgm::verif
