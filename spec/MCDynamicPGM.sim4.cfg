\* simulation: long random histories with base 4 over 12 keys (levels of capacity 16 and 64 are reached)
CONSTANTS Base = 4
 MinLevel = 1
 MinIndexLevel = 2
 MaxLvl = 6
 Keys = {0,1,2,3,4,5,6,7,8}
 Vals = {1,2}
 IdxEps = 1
 MaxOps = 70
 Bulks <- BulksEmpty
 MaxBulk = 0
 RecordHist = FALSE
SPECIFICATION Spec
INVARIANTS Refines C15 C05 NoTruncation
CHECK_DEADLOCK FALSE
