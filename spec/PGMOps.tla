------------------------------- MODULE PGMOps -------------------------------
(***************************************************************************)
(* PGMIndex::build as constant-level operators with explicit parameters    *)
(* (used by PGMIndex.tla with its constants and by StaticTrace.tla with    *)
(* the parameters of each recorded execution).                             *)
(***************************************************************************)
EXTENDS Segmentation

Seg(k, dx, dy, ic) == [key |-> k, dx |-> dx, dy |-> dy, ic |-> ic]
FloorEval(s, k) == (s.dy * (k - s.key)) \div s.dx + s.ic

\* the value the floating-point evaluation of a segment may take when `down` (see RoundSet in PGMIndex.tla): one less
\* than the exact value when that is an integer and the slope is not exactly representable
IsDyadic(d) == d \in {1, 2, 4, 8, 16, 32, 64, 128, 256, 512, 1024}
RoundedEval(s, k, down) == LET num == s.dy * (k - s.key) g == num \div s.dx IN
                           IF down /\ num % s.dx = 0 /\ g >= 1 /\ ~IsDyadic(s.dx) THEN g - 1 + s.ic ELSE g + s.ic

\* build_level: real segments, then extra + sentinel.  lastN = number of keys of the level's input.
\* The extra segment is added when the last segment, evaluated (in floating point) at sentinel - 1, falls short of lastN.
FinishLevel(segs, lastN, lastKey, sentinel, down) ==
  LET lastS == segs[Len(segs)] IN
  IF lastS.key = sentinel
  THEN [segs |-> segs, nreal |-> Len(segs) - 1]
  ELSE LET withExtra == IF RoundedEval(lastS, sentinel - 1, down) < lastN /\ lastKey + 1 # sentinel   \* no key lies between last and the sentinel then
                        THEN Append(segs, Seg(lastKey + 1, 1, 0, lastN)) ELSE segs
       IN [segs |-> Append(withExtra, Seg(sentinel, 1, 0, lastN)), nreal |-> Len(segs)]

KeysOfSegs(segs, cnt) == [i \in 1..cnt |-> segs[i].key]

RECURSIVE UpperLevels(_,_,_,_,_,_)
\* levels built so far (bottom first); stops when epsrec = 0 or the last level has <= 1 real segment
UpperLevels(lv, lastKey, epsrec, sentinel, down, fuel) ==
  LET top == lv[Len(lv)] IN
  IF epsrec = 0 \/ top.nreal <= 1 \/ fuel = 0 THEN lv
  ELSE LET keys == KeysOfSegs(top.segs, top.nreal)
           segs == AllSegs(Build(keys, 1, epsrec))
       IN UpperLevels(Append(lv, FinishLevel(segs, top.nreal, lastKey, sentinel, down)), lastKey, epsrec, sentinel, down, fuel - 1)

BuildIndexP(a, eps, epsrec, sentinel, nchunks, down) ==
  LET n == Len(a)
      segs0 == AllSegs(Build(a, nchunks, eps))
  IN UpperLevels(<<FinishLevel(segs0, n, a[n], sentinel, down)>>, a[n], epsrec, sentinel, down, 12)
=============================================================================
