------------------------------- MODULE Mapped -------------------------------
(***************************************************************************)
(* MappedPGMIndex (include/pgm/pgm_index_variants.hpp).                    *)
(*                                                                         *)
(* Mode = "queries": the multiset queries on top of PGMIndex::search,      *)
(*   transcribed: lower_bound, upper_bound (bounded upper_bound + gallop   *)
(*   over the duplicates + final upper_bound), count, contains.  The       *)
(*   static index is abstract: ANY range that satisfies C01 /\ C02 for the *)
(*   stored sequence may come back from search().  Arrays grow by Extend   *)
(*   (all sorted sequences with duplicates of the small universe).         *)
(*                                                                         *)
(* Mode = "files": the three construction paths and the file image:        *)
(*   CreateFromRange(f), CreateFromRaw(f), Reopen(f), Close(c) in every    *)
(*   order; a file image is [n, first, keys, idx] (idx stands for the      *)
(*   serialised levels_offsets + segments, a function of the keys).        *)
(***************************************************************************)
EXTENDS Naturals, Integers, Sequences, FiniteSets, TLC, Json

CONSTANTS Mode, U, N, Eps,
          MaxActs,            \* files: bound on the number of actions
          RawStoresFirstKey   \* files: TRUE = the raw-file constructor records the first key (intended behaviour)

VARIABLES data, q, r, done,           \* queries
          files, open, nacts, hist    \* files
vars == <<data, q, r, done, files, open, nacts, hist>>

n == Len(data)
LB(a, key) == Cardinality({i \in 1..Len(a) : a[i] < key})
UB(a, key) == Cardinality({i \in 1..Len(a) : a[i] <= key})
LBin(a, key, lo, hi) == lo + Cardinality({i \in (lo + 1)..hi : a[i] < key})
UBin(a, key, lo, hi) == lo + Cardinality({i \in (lo + 1)..hi : a[i] <= key})
Present(a, key) == \E i \in 1..Len(a) : a[i] = key
Admissible(a, key) ==
  {rg \in (0..Len(a)) \X (0..Len(a)) :
      /\ rg[1] <= rg[2] /\ rg[2] - rg[1] <= 2 * Eps + 2
      /\ LBin(a, key, rg[1], rg[2]) = LB(a, key)
      /\ (Present(a, key) => rg[1] <= LB(a, key) /\ LB(a, key) < rg[2])}

(***************************************************************************)
(* The transcribed queries; positions are 0-based offsets from begin()     *)
(***************************************************************************)
LowerBoundImpl(a, key, rg) == LBin(a, key, rg[1], rg[2])
\* while (it + step < end() && *(it + step) == key) step *= 2;
RECURSIVE Gallop(_,_,_,_)
Gallop(a, key, it, step) == IF it + step < Len(a) /\ a[it + step + 1] = key THEN Gallop(a, key, it, step * 2) ELSE step
Min(x, y) == IF x < y THEN x ELSE y
UpperBoundImpl(a, key, rg) ==
  LET it == UBin(a, key, rg[1], rg[2])
      step == Gallop(a, key, it, 1)
  IN UBin(a, key, it + step \div 2, Min(it + step, Len(a)))
CountImpl(a, key, rg) ==
  LET lb == LowerBoundImpl(a, key, rg) IN
  IF lb = Len(a) \/ a[lb + 1] # key THEN 0 ELSE UpperBoundImpl(a, key, rg) - lb
ContainsImpl(a, key, rg) == \E i \in (rg[1] + 1)..rg[2] : a[i] = key      \* std::binary_search on [lo, hi)

(***************************************************************************)
(* File images                                                             *)
(***************************************************************************)
Files == {1, 2}
NoFile == [n |-> -1]
Image(keys, firstKey) == [n |-> Len(keys), first |-> firstKey, keys |-> keys, idx |-> keys]
TheData == <<1, 1, 3>>        \* the model's only data set for the file actions (first key not 0)

Init == /\ (IF Mode = "queries" THEN \E x \in 0..(U - 1) : data = <<x>> ELSE data = TheData)
        /\ q = 0 /\ r = <<0, 0>> /\ done = FALSE
        /\ files = [f \in Files |-> NoFile] /\ open = {} /\ nacts = 0 /\ hist = <<>>

Extend == /\ Mode = "queries" /\ ~done /\ Len(data) < N
          /\ \E x \in data[Len(data)]..(U - 1) : data' = Append(data, x)
          /\ UNCHANGED <<q, r, done, files, open, nacts, hist>>
Query == /\ Mode = "queries" /\ ~done
         /\ \E key \in (0 - 1)..U : \E rg \in Admissible(data, key) : q' = key /\ r' = rg
         /\ done' = TRUE
         /\ UNCHANGED <<data, files, open, nacts, hist>>

Act(a) == nacts < MaxActs /\ nacts' = nacts + 1 /\ hist' = Append(hist, a) /\ UNCHANGED <<data, q, r, done>>
NewId == nacts
CreateFromRange(f) == /\ Mode = "files" /\ Act(IF f = 1 THEN 0 ELSE 5)
                      /\ files' = [files EXCEPT ![f] = Image(data, data[1])]
                      /\ open' = open \cup {[id |-> NewId, file |-> f, img |-> Image(data, data[1])]}
CreateFromRaw(f) == /\ Mode = "files" /\ Act(IF f = 2 THEN 1 ELSE 6)
                    /\ LET fk == IF RawStoresFirstKey THEN data[1] ELSE 0 IN
                       /\ files' = [files EXCEPT ![f] = Image(data, fk)]
                       /\ open' = open \cup {[id |-> NewId, file |-> f, img |-> Image(data, fk)]}
Reopen(f) == /\ Mode = "files" /\ files[f] # NoFile /\ Act(IF f = 1 THEN 2 ELSE 3)
             /\ open' = open \cup {[id |-> NewId, file |-> f, img |-> files[f]]}
             /\ UNCHANGED files
Close == /\ Mode = "files" /\ open # {} /\ Act(4)
         /\ \E c \in open : (\A d \in open : c.id <= d.id) /\ open' = open \ {c}
         /\ UNCHANGED files

Next == Extend \/ Query \/ (\E f \in Files : CreateFromRange(f) \/ CreateFromRaw(f) \/ Reopen(f)) \/ Close
Spec == Init /\ [][Next]_vars

(***************************************************************************)
(* Properties                                                              *)
(***************************************************************************)
C11 == (Mode = "queries" /\ done) =>
          /\ LowerBoundImpl(data, q, r) = LB(data, q)
          /\ UpperBoundImpl(data, q, r) = UB(data, q)
          /\ CountImpl(data, q, r) = UB(data, q) - LB(data, q)
          /\ ContainsImpl(data, q, r) = Present(data, q)
\* the gallop never dereferences at or past end(): it + step < n whenever a[it + step + 1] is read (by construction of
\* Gallop's guard); the final upper_bound's range is inside [0, n]
GallopInBounds == (Mode = "queries" /\ done) =>
          LET it == UBin(data, q, r[1], r[2]) step == Gallop(data, q, it, 1) IN it + step \div 2 <= Min(it + step, n)
\* C12: all existing files are byte-identical, headers describe the data, every open container holds the data
SameImage == \A f, g \in Files : (files[f] # NoFile /\ files[g] # NoFile) => files[f] = files[g]
HeaderFromData == \A f \in Files : files[f] # NoFile => files[f].n = Len(data) /\ files[f].first = data[1] /\ files[f].keys = data
ContainersAlike == \A c \in open : c.img.keys = data /\ c.img.first = data[1] /\ c.img.n = Len(data)
C12 == Mode = "files" => SameImage /\ HeaderFromData /\ ContainersAlike
ReopenPure == [][\A f \in Files : (files[f] # NoFile /\ nacts' = nacts + 1 /\ hist'[Len(hist')] \in {2, 3, 4}) => files'[f] = files[f]]_vars
\* spec -> code: every order of actions of length MaxActs, printed for the replayer (harness/rec_mapped --orders)
EmitOrder == (Mode = "files" /\ nacts = MaxActs) => PrintT(<<"HIST", ToJson(hist)>>)
WitnessLongRun == ~(Mode = "queries" /\ done /\ UB(data, q) - LB(data, q) > 2 * Eps + 3)
WitnessGallop4 == ~(Mode = "queries" /\ done /\ Gallop(data, q, UBin(data, q, r[1], r[2]), 1) >= 4)
=============================================================================
