------------------------------ MODULE PGMIndex ------------------------------
(***************************************************************************)
(* PGMIndex::build and PGMIndex::search (include/pgm/pgm_index.hpp).       *)
(*                                                                         *)
(* build:   level 0 = segmentation of the data with Eps (chunked or not),  *)
(*          then the optional extra segment (last+1, 0, n) and the         *)
(*          sentinel segment; upper levels = segmentation, with EpsRec, of *)
(*          the first keys of the level below, until one segment is left.  *)
(* search:  Clamp -> (Predict -> Cap -> Window -> Scan)* per level ->      *)
(*          Predict -> Cap -> Widen, one action per step, with the three   *)
(*          routing modes the template selects: "binary_one_level"         *)
(*          (EpsRec = 0), "linear" (EpsRec <= threshold), "binary_window". *)
(*                                                                         *)
(* Floating-point evaluation of a segment is bounded nondeterminism        *)
(* (RoundSet): the exact rational value's floor, or one less when the      *)
(* exact value is an integer and the slope is not exactly representable.   *)
(* Properties: C01, C02, C07 and InBounds (every array access of the       *)
(* descent stays inside its level; the sentinel argument of C17).          *)
(***************************************************************************)
EXTENDS PGMOps

CONSTANTS Eps, EpsRec, Sentinel, RouteMode, NChunks

BuildIndex(a, down) == BuildIndexP(a, Eps, EpsRec, Sentinel, NChunks, down)

(***************************************************************************)
(* State machine                                                           *)
(***************************************************************************)
CONSTANTS U, N,
          MinBuildLen,  \* the index is built only on arrays of at least this length (1 in exhaustive runs; larger in
                        \* simulation runs, to reach arrays long enough for three levels)
          MaxStep       \* largest gap between consecutive keys (U in exhaustive runs: any gap)
VARIABLES data,   \* the sorted array (1-based sequence over 0..U-1)
          index,  \* built levels (bottom first), <<>> before the build
          pc,     \* "grow", "built", "route", "done"
          q, k,   \* query and clamped query
          lvl,    \* level whose segment `it` is selected (1-based into index)
          it,     \* index (1-based) of the selected segment in level lvl
          visited,\* per level: <<level, predicted, window lo, chosen, touched>> (ghost, for C07)
          res,    \* [pos, lo, hi]
          oob     \* ghost: an access outside a level was attempted
vars == <<data, index, pc, q, k, lvl, it, visited, res, oob>>

n == Len(data)
Min(a, b) == IF a < b THEN a ELSE b
NoRes == [pos |-> 0, lo |-> 0, hi |-> 0]
Init == /\ \E x \in 0..(U - 1) : data = <<x>>
        /\ index = <<>> /\ pc = "grow" /\ q = 0 /\ k = 0 /\ lvl = 0 /\ it = 0 /\ visited = <<>> /\ res = NoRes /\ oob = FALSE

Extend == /\ pc = "grow" /\ Len(data) < N
          /\ \E x \in data[Len(data)]..Min(U - 1, data[Len(data)] + MaxStep) : data' = Append(data, x)
          /\ UNCHANGED <<index, pc, q, k, lvl, it, visited, res, oob>>

BuildIt == /\ pc = "grow" /\ Len(data) >= MinBuildLen
           /\ \E down \in BOOLEAN : index' = BuildIndex(data, down)
           /\ pc' = "built"
           /\ UNCHANGED <<data, q, k, lvl, it, visited, res, oob>>

\* values that size_t(slope * double(k - key)) + intercept may take
RoundSet(s, key) == LET num == s.dy * (key - s.key)
                        g == num \div s.dx
                    IN IF num % s.dx = 0 /\ g >= 1 /\ ~IsDyadic(s.dx) THEN {g - 1 + s.ic, g + s.ic} ELSE {g + s.ic}

Height == Len(index)
Level(l) == index[l].segs
\* number of entries of a level that segment_for_key may legitimately select (all but the sentinel)
LevelCount(l) == Len(Level(l)) - 1
SubEps(x, e) == IF x <= e THEN 0 ELSE x - e
AddEps(x, e, size) == IF x + e + 2 >= size THEN size ELSE x + e + 2
\* rightmost entry (0-based) among the first cnt entries of a level whose key is <= key; -1 if none
Responsible(l, key) == Cardinality({j \in 1..LevelCount(l) : Level(l)[j].key <= key}) - 1

\* Clamp + choice of the root / one-level binary search
StartQuery(query) ==
  /\ pc = "built"
  /\ q' = query /\ k' = (IF query < data[1] THEN data[1] ELSE query)
  /\ visited' = <<>> /\ res' = NoRes
  /\ IF RouteMode = "binary_one_level"
     THEN \* prev(upper_bound(begin, begin + segments_count(), key))
          LET r == Responsible(1, k') IN
          /\ lvl' = 1 /\ it' = r + 1 /\ oob' = (r < 0) /\ pc' = "predict"
     ELSE /\ lvl' = Height /\ it' = 1 /\ oob' = FALSE /\ pc' = (IF Height = 1 THEN "predict" ELSE "route")
  /\ UNCHANGED <<data, index>>

\* one level of the descent: predict with the current segment, cap by the next intercept, window, scan
RouteStep ==
  /\ pc = "route" /\ lvl >= 2
  /\ \E p0 \in RoundSet(Level(lvl)[it], k) :
       LET below == lvl - 1
           pos == Min(p0, Level(lvl)[it + 1].ic)
           wlo == SubEps(pos, EpsRec + 1)                      \* 0-based
           cnt == Len(Level(below))                            \* entries incl. sentinel
       IN IF RouteMode = "linear"
          THEN \* for (; next(lo)->key <= key; ++lo)
               LET C == {j \in wlo..(cnt - 2) : Level(below)[j + 2].key > k}
                   ranOff == C = {}
                   stop == IF ranOff THEN 0 ELSE CHOOSE j \in C : \A i \in C : j <= i
               IN /\ it' = stop + 1
                  /\ oob' = (oob \/ ranOff)
                  /\ visited' = Append(visited, [level |-> below, pred |-> pos, wlo |-> wlo, chosen |-> stop,
                                                 touched |-> stop - wlo + 1])
          ELSE \* binary_window: hi = begin + ADD_EPS(pos, EpsRec, level_size); it = prev(upper_bound(lo, hi, key))
               LET lsize == cnt - 1
                   whi == AddEps(pos, EpsRec, lsize)
                   ub == wlo + Cardinality({j \in wlo..(whi - 1) : Level(below)[j + 1].key <= k})
                   chosen == ub - 1
               IN /\ it' = (IF chosen < 0 THEN 1 ELSE chosen + 1)
                  /\ oob' = (oob \/ chosen < 0 \/ wlo > whi)
                  /\ visited' = Append(visited, [level |-> below, pred |-> pos, wlo |-> wlo, chosen |-> chosen,
                                                 touched |-> whi - wlo])
  /\ lvl' = lvl - 1
  /\ pc' = (IF lvl - 1 = 1 THEN "predict" ELSE "route")
  /\ UNCHANGED <<data, index, q, k, res>>

\* final prediction on level 0, cap, widen
Predict ==
  /\ pc = "predict" /\ lvl = 1
  /\ \E p0 \in RoundSet(Level(1)[it], k) :
       LET pos == Min(p0, Level(1)[it + 1].ic) IN
       res' = [pos |-> pos, lo |-> SubEps(pos, Eps), hi |-> AddEps(pos, Eps, n)]
  /\ pc' = "done"
  /\ UNCHANGED <<data, index, q, k, lvl, it, visited, oob>>

Next == Extend \/ BuildIt \/ (\E query \in (0 - 1)..(Sentinel - 1) : StartQuery(query)) \/ RouteStep \/ Predict
Spec == Init /\ [][Next]_vars

(***************************************************************************)
(* Properties                                                              *)
(***************************************************************************)
LB(a, key) == Cardinality({i \in 1..Len(a) : a[i] < key})
LBin(a, key, lo, hi) == lo + Cardinality({i \in (lo + 1)..hi : a[i] < key})
Present(a, key) == \E i \in 1..Len(a) : a[i] = key

Shape == pc = "done" => res.lo <= res.hi /\ res.hi <= n /\ res.hi - res.lo <= 2 * Eps + 2 /\ res.lo <= res.pos
C01 == (pc = "done" /\ Present(data, q)) => Shape /\ res.lo <= LB(data, q) /\ LB(data, q) < res.hi
C02 == pc = "done" => LBin(data, q, res.lo, res.hi) = LB(data, q)
\* the segment used on every level is the rightmost one starting at or before the key
RoutedRight == (pc \in {"predict", "done"} /\ ~oob /\ (Height >= 2 \/ RouteMode = "binary_one_level")) => it - 1 = Responsible(1, k)
InBounds == ~oob
C07a == \A i \in 1..Len(visited) : LET v == visited[i] IN
            /\ v.chosen = Responsible(v.level, k)
            /\ v.chosen - v.pred <= EpsRec + 1 /\ v.pred - v.chosen <= EpsRec + 1
            /\ v.touched <= 2 * EpsRec + 3
            /\ v.wlo >= v.pred - (EpsRec + 1)
C07b == index # <<>> => \A l \in 2..Height : index[l].nreal <= (index[l - 1].nreal \div (2 * EpsRec + 1)) + 1
CountBoundIdx == index # <<>> => index[1].nreal <= (n \div (2 * Eps + 1)) + NChunks + 1
\* the top level has a single real segment whenever the index is recursive
SingleRoot == (index # <<>> /\ EpsRec > 0) => index[Height].nreal <= 1
\* every level is terminated by the sentinel and intercepts never exceed the size of the level below
SentinelOK == index # <<>> => \A l \in 1..Height : Level(l)[Len(Level(l))].key = Sentinel

WitnessTwoLevels == Len(index) < 2
WitnessThreeLevels == Len(index) < 3
WitnessRoundDown == ~(pc = "done" /\ \E s \in {Level(1)[it]} : Cardinality(RoundSet(s, k)) = 2)
WitnessExtra == index # <<>> => Len(Level(1)) # index[1].nreal + 2
WitnessNoExtra == index # <<>> => Len(Level(1)) # index[1].nreal + 1
=============================================================================
