------------------------------ MODULE Lifecycle ------------------------------
(***************************************************************************)
(* Index objects as values (C19): which object owns which storage across   *)
(* copy / move / destroy / update.  Objects live in slots o \in Obj.       *)
(*   st[o]  : "none" (no object), "live", "moved" (moved-from: may only be *)
(*            destroyed or assigned to)                                    *)
(*   val[o] : the abstract value the object must answer like               *)
(*   ref[o] : the slot whose storage the object's internal support         *)
(*            structures point into (classes such as CompressedPGMIndex    *)
(*            keep a select support bound to a sibling member)             *)
(* Two ways of copying are written out: "retarget" (what a correct copy    *)
(* does, and what sdsl::sd_vector's own copy does) and "memberwise" (an    *)
(* implicit copy of a struct holding such a support: the pointer still     *)
(* designates the source's member).  With "memberwise" NoForeignStorage    *)
(* and QueryNeverDangling are violated within a few steps.                 *)
(***************************************************************************)
EXTENDS Naturals, Integers, Sequences, FiniteSets, TLC, Json
CONSTANTS Obj, Vals, CopyMode, Mutable, MaxOps
VARIABLES st, val, ref, fresh, nops, hist, dangling
vars == <<st, val, ref, fresh, nops, hist, dangling>>

Init == /\ st = [o \in Obj |-> "none"] /\ val = [o \in Obj |-> 0] /\ ref = [o \in Obj |-> o]
        /\ fresh = 100 /\ nops = 0 /\ hist = <<>> /\ dangling = FALSE
Step(rec) == nops < MaxOps /\ nops' = nops + 1 /\ hist' = Append(hist, rec)
RefAfterCopy(o, s) == IF CopyMode = "retarget" THEN o ELSE ref[s]

Construct(o, v) == /\ st[o] = "none" /\ Step(<<"Construct", o, 0, v>>)
                   /\ st' = [st EXCEPT ![o] = "live"] /\ val' = [val EXCEPT ![o] = v] /\ ref' = [ref EXCEPT ![o] = o]
                   /\ UNCHANGED <<fresh, dangling>>
CopyConstruct(o, s) == /\ st[o] = "none" /\ st[s] = "live" /\ o # s /\ Step(<<"CopyConstruct", o, s, 0>>)
                       /\ st' = [st EXCEPT ![o] = "live"] /\ val' = [val EXCEPT ![o] = val[s]]
                       /\ ref' = [ref EXCEPT ![o] = RefAfterCopy(o, s)]
                       /\ UNCHANGED <<fresh, dangling>>
CopyAssign(o, s) == /\ st[o] \in {"live", "moved"} /\ st[s] = "live" /\ o # s /\ Step(<<"CopyAssign", o, s, 0>>)
                    /\ st' = [st EXCEPT ![o] = "live"] /\ val' = [val EXCEPT ![o] = val[s]]
                    /\ ref' = [ref EXCEPT ![o] = RefAfterCopy(o, s)]
                    /\ UNCHANGED <<fresh, dangling>>
MoveConstruct(o, s) == /\ st[o] = "none" /\ st[s] = "live" /\ o # s /\ Step(<<"MoveConstruct", o, s, 0>>)
                       /\ st' = [st EXCEPT ![o] = "live", ![s] = "moved"] /\ val' = [val EXCEPT ![o] = val[s]]
                       /\ ref' = [ref EXCEPT ![o] = RefAfterCopy(o, s)]
                       /\ UNCHANGED <<fresh, dangling>>
MoveAssign(o, s) == /\ st[o] \in {"live", "moved"} /\ st[s] = "live" /\ o # s /\ Step(<<"MoveAssign", o, s, 0>>)
                    /\ st' = [st EXCEPT ![o] = "live", ![s] = "moved"] /\ val' = [val EXCEPT ![o] = val[s]]
                    /\ ref' = [ref EXCEPT ![o] = RefAfterCopy(o, s)]
                    /\ UNCHANGED <<fresh, dangling>>
Destroy(o) == /\ st[o] # "none" /\ Step(<<"Destroy", o, 0, 0>>)
              /\ st' = [st EXCEPT ![o] = "none"] /\ UNCHANGED <<val, ref, fresh, dangling>>
\* an update of a dynamic container: the object takes a value nobody else has
Mutate(o) == /\ Mutable /\ st[o] = "live" /\ Step(<<"Mutate", o, 0, fresh>>)
             /\ val' = [val EXCEPT ![o] = fresh] /\ fresh' = fresh + 1 /\ UNCHANGED <<st, ref, dangling>>
\* a query reads through the internal pointers
Query(o) == /\ st[o] = "live" /\ Step(<<"Query", o, 0, 0>>)
            /\ dangling' = (dangling \/ st[ref[o]] = "none")
            /\ UNCHANGED <<st, val, ref, fresh>>
Next == \E o \in Obj : \/ (\E v \in Vals : Construct(o, v)) \/ Destroy(o) \/ Mutate(o) \/ Query(o)
                       \/ \E s \in Obj : CopyConstruct(o, s) \/ CopyAssign(o, s) \/ MoveConstruct(o, s) \/ MoveAssign(o, s)
Spec == Init /\ [][Next]_vars

NoForeignStorage == \A o \in Obj : st[o] = "live" => ref[o] = o
QueryNeverDangling == ~dangling
\* a copy answers like its source at copy time and keeps doing so whatever happens to the source afterwards:
\* values only change by Mutate of that very object or by an assignment to it
Independent == [][\A o \in Obj : (st[o] = "live" /\ st'[o] = "live" /\ val'[o] # val[o]) =>
                     \E r \in {hist'[Len(hist')]} : r[2] = o /\ r[1] \in {"Mutate", "CopyAssign", "MoveAssign"}]_vars
EmitHist == (nops = MaxOps) => PrintT(<<"HIST", ToJson(hist)>>)
View == <<st, val, ref, fresh, nops, dangling>>
=============================================================================
