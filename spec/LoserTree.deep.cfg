CONSTANTS NSrcs = {1,2,3,4}
 Keys = {0,1,2}
 MaxLen = 3
 TieBreak = "source"
SPECIFICATION FairSpec
INVARIANTS WinnerIsMin TournamentOK InBounds
PROPERTY Drained
CHECK_DEADLOCK FALSE
