----------------------------- MODULE ClampLemma -----------------------------
(***************************************************************************)
(* The arithmetic behind NoUpwardShift of CompIntercepts.tla, for ALL      *)
(* integers (discharged by Apalache/Z3, not by enumeration).               *)
(* Two consecutive segments start at ranks s1 < s2; the raw intercept of a *)
(* segment is its line at its first key, rounded to the nearest integer,   *)
(* and that line is within Eps of the rank there: |c - s| <= eps.          *)
(* CompressedLevel stores  clamp(c2, c1 + 1, size - 1).                    *)
(*   Lemma:  if the starts are at least gap = 2 eps + 1 apart (maximal     *)
(*   segments of ONE sequential segmentation, C04: every set of fed points *)
(*   whose ranks span at most 2 eps fits one segment) the lower clamp does *)
(*   not bind: c2 >= c1 + 1, so no stored intercept is above the raw one.  *)
(*   Seam:   with gap = 1 (the short segment that ends a chunk of          *)
(*   make_segmentation_par, then the first segment of the next chunk) the  *)
(*   conclusion fails for every eps >= 1 (Apalache reports a               *)
(*   counterexample): finding F16.                                         *)
(***************************************************************************)
EXTENDS Integers

VARIABLES
    \* @type: Int;
    eps,
    \* @type: Int;
    gap,
    \* @type: Int;
    s1,
    \* @type: Int;
    s2,
    \* @type: Int;
    c1,
    \* @type: Int;
    c2

Init == /\ eps \in Nat /\ gap \in Nat /\ s1 \in Nat /\ s2 \in Nat /\ c1 \in Int /\ c2 \in Int
        /\ eps >= 1 /\ gap >= 1
        /\ s2 >= s1 + gap
        /\ c1 >= s1 - eps /\ c1 <= s1 + eps
        /\ c2 >= s2 - eps /\ c2 <= s2 + eps
Next == UNCHANGED <<eps, gap, s1, s2, c1, c2>>

Lemma == gap >= 2 * eps + 1 => c2 >= c1 + 1
\* sensitivity: must be violated
Seam == gap >= 1 => c2 >= c1 + 1
=============================================================================
