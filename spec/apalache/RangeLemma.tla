----------------------------- MODULE RangeLemma -----------------------------
(***************************************************************************)
(* The arithmetic core of C01/C02, for ALL naturals (discharged by         *)
(* Apalache/Z3, not by enumeration).  r is the rank the query's lower      *)
(* bound must have.  The segment's line is within Eps of the rank at every *)
(* constraint point; the stored intercept is that line rounded to the      *)
(* nearest integer (-1/2), the product slope * (k - key) is truncated and  *)
(* may lose one more unit with an inexact slope (-1).  For a PRESENT key   *)
(* the constraint point is (key, r): pos >= r - Eps - 1.  For an ABSENT    *)
(* key after a run of duplicates the constraint point is the gap guard     *)
(* (key + 1, r - 1): pos >= r - Eps - 2.  In both cases pos <= r + Eps.    *)
(* Then   lo = PGM_SUB_EPS(pos, Eps),  hi = PGM_ADD_EPS(pos, Eps, n)       *)
(* satisfy lo <= r <= hi, lo <= hi <= n, hi - lo <= 2 Eps + 2, lo <= pos,  *)
(* and r < hi for a present key (r < n).  With "+ 1" instead of "+ 2" in   *)
(* PGM_ADD_EPS both conclusions fail (checked: Apalache reports a          *)
(* counterexample).                                                        *)
(***************************************************************************)
EXTENDS Integers

VARIABLES
    \* @type: Int;
    pos,
    \* @type: Int;
    r,
    \* @type: Int;
    n,
    \* @type: Int;
    eps,
    \* @type: Bool;
    present

SubEps(x, e) == IF x <= e THEN 0 ELSE x - e
AddEps(x, e, size) == IF x + e + 2 >= size THEN size ELSE x + e + 2

Init == /\ pos \in Nat /\ r \in Nat /\ n \in Nat /\ eps \in Nat
        /\ eps >= 1 /\ r <= n
        /\ present \in BOOLEAN
        /\ pos >= r - eps - (IF present THEN 1 ELSE 2)
        /\ pos <= r + eps
        /\ (present => r < n)
Next == UNCHANGED <<pos, r, n, eps, present>>

lo == SubEps(pos, eps)
hi == AddEps(pos, eps, n)
Lemma == /\ lo <= r /\ r <= hi
         /\ lo <= hi /\ hi <= n
         /\ hi - lo <= 2 * eps + 2
         /\ lo <= pos
\* strictly inside for a present key whose prediction is at most Eps + 1 below its first occurrence
Strict == present => r < hi
=============================================================================
