CONSTANTS U = 8
 N = 6
 Eps = 1
 EpsRec = 1
 Sentinel = 8
 RouteMode = "linear"
 NChunks = 1
 MinBuildLen = 1
 MaxStep = 1000
SPECIFICATION Spec
INVARIANTS Shape C01 C02 RoutedRight InBounds C07a C07b CountBoundIdx SingleRoot SentinelOK
CHECK_DEADLOCK FALSE
