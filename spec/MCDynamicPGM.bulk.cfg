\* every sorted bulk load of at most 3 pairs (repeated keys allowed) followed by every history of at most 5 updates
CONSTANTS Base = 2
 MinLevel = 1
 MinIndexLevel = 2
 MaxLvl = 5
 Keys = {0,1,2,3}
 Vals = {1,2}
 IdxEps = 1
 MaxOps = 5
 Bulks <- BulksSorted
 MaxBulk = 3
 RecordHist = FALSE
SPECIFICATION Spec
INVARIANTS Refines C15 C05 C06 RangeIrrelevant NoTruncation
VIEW ViewBounded
CHECK_DEADLOCK FALSE
