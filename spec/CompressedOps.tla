---------------------------- MODULE CompressedOps ----------------------------
(***************************************************************************)
(* CompressedPGMIndex's construction as constant-level operators with      *)
(* explicit parameters (used by Compressed.tla with its constants and by   *)
(* StaticTrace.tla with the parameters of each recorded execution): the    *)
(* builder state of every segment, its slope range and the intersection of *)
(* its extreme lines, merge_slopes, the clamped and offset intercepts of a *)
(* CompressedLevel.  Exact rational arithmetic (cross multiplication).     *)
(***************************************************************************)
EXTENDS PGMOps

(***************************************************************************)
(* rationals as <<den, num>> like the slopes <<dx, dy>> of PLAOps, den > 0 *)
(***************************************************************************)
RECURSIVE GCD(_, _)
GCD(a, b) == IF b = 0 THEN a ELSE GCD(b, a % b)
Norm(s) == LET g == GCD(Abs(s[1]), Abs(s[2])) IN IF g <= 1 THEN s ELSE <<s[1] \div g, TDiv(s[2], g)>>
Mid(a, b) == Norm(<<2 * a[1] * b[1], a[2] * b[1] + b[2] * a[1]>>)
\* std::round of num/den (den > 0): half away from zero.  The code evaluates i_y - i_x * slope in floating point: when
\* the exact value is a tie (k + 1/2) the computed one may fall on either side, so ties are a parameter (up = away from zero)
RoundDiv(num, den, up) == LET a == Abs(num)
                              r == IF (2 * a) % (2 * den) = den /\ ~up THEN a \div den ELSE (2 * a + den) \div (2 * den)
                          IN IF num >= 0 THEN r ELSE -r

(***************************************************************************)
(* the builder state of every segment (the segment's points pushed again   *)
(* through the hull machine: the state depends on the points only)         *)
(***************************************************************************)
RECURSIVE Feed(_, _, _, _, _)
Feed(pts, i, b, m, eps) == IF i > b THEN m ELSE Feed(pts, i + 1, b, AddPoint(m, pts[i], eps)[2], eps)
StatesOfChunk(r, eps) == [j \in 1..Len(r.segs) |-> LET g == SegPtsRange(r, j) IN Feed(r.pts, g[1], g[2], Fresh, eps)]
RECURSIVE FlatStates(_, _, _)
FlatStates(bres, j, eps) == IF j > Len(bres) THEN <<>> ELSE StatesOfChunk(bres[j], eps) \o FlatStates(bres, j + 1, eps)

\* get_slope_range()
MinSlope(m) == IF m.nin = 1 THEN <<1, 0>> ELSE Sub(m.rect[3], m.rect[1])
MaxSlope(m) == IF m.nin = 1 THEN <<1, 1>> ELSE Sub(m.rect[4], m.rect[2])
\* get_intersection(first_x): <<i_x numerator, i_y numerator, common denominator>>, x relative to the segment's first key
Intersection(m) ==
  LET p0 == m.rect[1] p1 == m.rect[2]
      s1 == Sub(m.rect[3], m.rect[1]) s2 == Sub(m.rect[4], m.rect[2])
      p0x == p0[1] - m.firstX
  IN IF m.nin = 1 \/ SEQ(s1, s2) THEN <<p0x, p0[2], 1>>
     ELSE LET a == s1[1] * s2[2] - s1[2] * s2[1]
              d == Sub(p1, p0)
              bn == d[1] * s2[2] - d[2] * s2[1]
          IN <<p0x * a + bn * s1[1], p0[2] * a + bn * s1[2], a>>
\* round(i_y - i_x * slope)
RawIntercept(m, slope, up) == LET x == Intersection(m) IN
  IF x[3] > 0 THEN RoundDiv(x[2] * slope[1] - x[1] * slope[2], x[3] * slope[1], up)
  ELSE RoundDiv(-(x[2] * slope[1] - x[1] * slope[2]), (-x[3]) * slope[1], up)

(***************************************************************************)
(* merge_slopes                                                            *)
(***************************************************************************)
RangeLess(ms, i, j) == \/ SLT(MinSlope(ms[i]), MinSlope(ms[j]))
                       \/ (SEQ(MinSlope(ms[i]), MinSlope(ms[j])) /\ SLT(MaxSlope(ms[i]), MaxSlope(ms[j])))
\* indexes sorted by slope range (selection sort; equal ranges are interchangeable)
RECURSIVE SortIdx(_, _, _)
SortIdx(ms, rest, acc) ==
  IF rest = {} THEN acc
  ELSE LET i == CHOOSE x \in rest : \A y \in rest : ~RangeLess(ms, y, x)
       IN SortIdx(ms, rest \ {i}, Append(acc, i))
\* greedy intersection in sorted order: <<table (sequence of slopes), mapping (function index -> table position)>>
RECURSIVE Groups(_, _, _, _, _, _, _)
Groups(ms, order, p, cmin, cmax, table, map) ==
  IF p > Len(order) THEN <<Append(table, Mid(cmin, cmax)), map>>
  ELSE LET i == order[p] mn == MinSlope(ms[i]) mx == MaxSlope(ms[i]) IN
       IF SGT(mn, cmax)
       THEN Groups(ms, order, p + 1, mn, mx, Append(table, Mid(cmin, cmax)), [map EXCEPT ![i] = Len(table) + 2])
       ELSE Groups(ms, order, p + 1, IF SGT(mn, cmin) THEN mn ELSE cmin, IF SLT(mx, cmax) THEN mx ELSE cmax,
                   table, [map EXCEPT ![i] = Len(table) + 1])
MergeSlopes(ms) ==
  LET order == SortIdx(ms, 1..Len(ms), <<>>)
      f == order[1]
  IN Groups(ms, order, 2, MinSlope(ms[f]), MaxSlope(ms[f]), <<>>, [i \in 1..Len(ms) |-> 1])

(***************************************************************************)
(* CompressedLevel                                                         *)
(***************************************************************************)
ClampV(v, lo, hi) == IF v < lo THEN lo ELSE IF hi < v THEN hi ELSE v
BuildCompP(a, eps, nchunks, sentinel, up) ==
  LET nn == Len(a)
      bres == Build(a, nchunks, eps)
      ms == FlatStates(bres, 1, eps)
      m == Len(ms)
      merged == MergeSlopes(ms)
      table == merged[1]
      map == merged[2]
      raw == [i \in 1..m |-> RawIntercept(ms[i], table[map[i]], up)]
      offset == raw[1]
      extra == table[map[m]][2] = 0
      stored == [i \in 1..m |-> IF i = 1 THEN 0 ELSE ClampV(raw[i], raw[i - 1] + 1, nn - 1) - offset]
      maxI == nn - offset + 2
      positions == stored \o (IF extra THEN <<maxI - 2>> ELSE <<>>) \o <<maxI - 1>>
  IN [keys |-> [i \in 1..m |-> ms[i].firstX] \o (IF extra THEN <<a[nn] + 1>> ELSE <<>>) \o <<sentinel>>,
      \* the extra segment's map entry is assigned the VALUE of the last slope (0), i.e. it refers to the first table entry
      slopes |-> [i \in 1..m |-> table[map[i]]] \o (IF extra THEN <<table[1]>> ELSE <<>>),
      ics |-> [i \in 1..Len(positions) |-> offset + positions[i]],
      size |-> m + (IF extra THEN 1 ELSE 0),
      raw |-> raw, positions |-> positions, maxI |-> maxI,
      clampok |-> \A i \in 2..m : raw[i - 1] + 1 <= nn - 1,
      upshift |-> \E i \in 2..m : raw[i] < raw[i - 1] + 1]

(***************************************************************************)
(* The recursive index (EpsilonRecursive > 0): upper levels are sequential *)
(* segmentations, with epsrec, of the first keys of the level below until  *)
(* one segment is left; merge_slopes runs over the segments of ALL levels  *)
(* (bottom level first); the top segment is kept as root_slope /           *)
(* root_intercept (get_floating_point_segment, integer branch = SegOf),    *)
(* every other level becomes a CompressedLevel whose intercepts are        *)
(* clamped against the size of the level below it.                         *)
(***************************************************************************)
LevelFrom(ms, table, map, raw, from, cnt, prevSize, lastKey, sentinel) ==
  LET offset == raw[from]
      extra == table[map[from + cnt - 1]][2] = 0
      stored == [i \in 1..cnt |-> IF i = 1 THEN 0 ELSE ClampV(raw[from + i - 1], raw[from + i - 2] + 1, prevSize - 1) - offset]
      maxI == prevSize - offset + 2
      positions == stored \o (IF extra THEN <<maxI - 2>> ELSE <<>>) \o <<maxI - 1>>
  IN [keys |-> [i \in 1..cnt |-> ms[from + i - 1].firstX] \o (IF extra THEN <<lastKey + 1>> ELSE <<>>) \o <<sentinel>>,
      slopes |-> [i \in 1..cnt |-> table[map[from + i - 1]]] \o (IF extra THEN <<table[1]>> ELSE <<>>),
      ics |-> [i \in 1..Len(positions) |-> offset + positions[i]],
      size |-> cnt + (IF extra THEN 1 ELSE 0),
      positions |-> positions, maxI |-> maxI,
      clampok |-> \A i \in 2..cnt : raw[from + i - 2] + 1 <= prevSize - 1,
      upshift |-> \E i \in 2..cnt : raw[from + i - 1] < raw[from + i - 2] + 1]

\* sequences of builder states, one per level, bottom first, until a level has a single segment
RECURSIVE LevelStates(_, _, _)
LevelStates(lv, epsrec, fuel) ==
  LET top == lv[Len(lv)] IN
  IF Len(top) <= 1 \/ fuel = 0 THEN lv
  ELSE LET keys == [i \in 1..Len(top) |-> top[i].firstX]
       IN LevelStates(Append(lv, FlatStates(Build(keys, 1, epsrec), 1, epsrec)), epsrec, fuel - 1)
RECURSIVE ConcatAll(_, _)
ConcatAll(lv, j) == IF j > Len(lv) THEN <<>> ELSE lv[j] \o ConcatAll(lv, j + 1)
RECURSIVE OffsetOf(_, _)
OffsetOf(lv, j) == IF j <= 1 THEN 0 ELSE OffsetOf(lv, j - 1) + Len(lv[j - 1])      \* number of segments below level j (1-based)

BuildCompRecP(a, eps, epsrec, sentinel, up) ==
  LET nn == Len(a)
      lv == LevelStates(<<FlatStates(Build(a, 1, eps), 1, eps)>>, epsrec, 10)
      h == Len(lv)                                  \* n_levels
      ms == ConcatAll(lv, 1)
      merged == MergeSlopes(ms)
      table == merged[1]
      map == merged[2]
      raw == [i \in 1..Len(ms) |-> RawIntercept(ms[i], table[map[i]], up)]
      rootSeg == SegOf(lv[h][1])
      \* stored levels top-down: level h-1 (below the root), ..., level 1 (bottom); with h = 1 the bottom level is not stored
      stored == [t \in 1..(h - 1) |-> LET j == h - t IN      \* j = 1-based level, 1 = bottom
                   LevelFrom(ms, table, map, raw, OffsetOf(lv, j) + 1, Len(lv[j]), IF j = 1 THEN nn ELSE Len(lv[j - 1]), a[nn], sentinel)]
  IN [root |-> rootSeg, rootRange |-> IF h = 1 THEN nn ELSE Len(lv[h - 1]), levels |-> stored, height |-> h,
      clampok |-> \A t \in 1..(h - 1) : stored[t].clampok,
      upshift |-> \E t \in 1..(h - 1) : stored[t].upshift]

=============================================================================
