----------------------------- MODULE LoserTree -----------------------------
(***************************************************************************)
(* pgm::internal::LoserTree (include/pgm/pgm_index_dynamic.hpp), the       *)
(* tournament tree through which DynamicPGMIndex::Iterator merges its      *)
(* per-level cursors.  The array `losers` is modelled cell by cell:        *)
(*   LoserTree(n)        k = next_pow2(n); 2k cells; cells k+n-1 .. 2k-1   *)
(*                       hold (max, 255), the others are value-initialised *)
(*   insert_start(s)     leaf k+s := (head of sequence s, s)               *)
(*   init()              init_winner(1): every inner node keeps the loser  *)
(*                       of its two subtrees (right loses ties), cell 0    *)
(*                       gets the overall winner                           *)
(*   delete_min_insert   replaces the winner's key by the next key of its  *)
(*                       sequence (max when exhausted) and replays the     *)
(*                       path to the root; leaves are NOT updated          *)
(* DynamicPGM.tla abstracts all of this as MinSrc (smallest head key, ties *)
(* to the smallest source = most recent level); this module shows that the *)
(* array machine computes exactly that (WinnerIsMin, TournamentOK), and    *)
(* the variant TieBreak = "none" (ties not resolved by source during the   *)
(* replay) must be rejected.                                               *)
(* Not modelled: LoserTree(0) (next_pow2(0) shifts by 64: finding F10,     *)
(* no listed property depends on it; the iterator then never asks for      *)
(* min_source) and keys equal to numeric_limits::max (the exhausted mark). *)
(***************************************************************************)
EXTENDS Naturals, Integers, Sequences, FiniteSets, TLC
CONSTANTS NSrcs,      \* set of admissible numbers of sequences, e.g. 1..4
          Keys,       \* key universe (naturals below MAXK)
          MaxLen,     \* sequences have 1..MaxLen keys, non-decreasing
          TieBreak    \* "source" (the code) | "none" (sensitivity variant)
MAXK == 1000          \* std::numeric_limits<T>::max()
NONE == 255           \* std::numeric_limits<Source>::max()
VARIABLES n, seqs, pos, k, losers, phase, nextIns
vars == <<n, seqs, pos, k, losers, phase, nextIns>>

SortedSeqs == {s \in UNION {[1..m -> Keys] : m \in 1..MaxLen} : \A i \in 1..(Len(s) - 1) : s[i] <= s[i + 1]}
RECURSIVE NextPow2From(_, _)
NextPow2From(p, x) == IF p >= x THEN p ELSE NextPow2From(2 * p, x)
NextPow2(x) == NextPow2From(1, x)
Cell(key, src) == [key |-> key, source |-> src]

\* ---- pure transcriptions (also used by the trace specification) ----
Constructed(nn) == LET kk == NextPow2(nn) IN
   [i \in 0..(2 * kk - 1) |-> IF i >= kk + nn - 1 THEN Cell(MAXK, NONE) ELSE Cell(0, 0)]
InsertStart(L, kk, s, key) == [L EXCEPT ![kk + s] = Cell(key, s)]
RECURSIVE InitWinner(_, _, _)
\* <<array, index of the winner's cell>>
InitWinner(L, kk, root) ==
  IF root >= kk THEN <<L, root>>
  ELSE LET l == InitWinner(L, kk, 2 * root)
           r == InitWinner(l[1], kk, 2 * root + 1)
           left == l[2]  right == r[2]  L2 == r[1]
       IN IF L2[right].key >= L2[left].key THEN <<[L2 EXCEPT ![root] = L2[right]], left>>
          ELSE <<[L2 EXCEPT ![root] = L2[left]], right>>
InitTree(L, kk) == LET r == InitWinner(L, kk, 1) IN [r[1] EXCEPT ![0] = r[1][r[2]]]
StoredWins(c, key, src) ==
  \/ c.key < key
  \/ (TieBreak = "source" /\ key >= c.key /\ c.source < src)
RECURSIVE Replay(_, _, _, _)
Replay(L, p, key, src) ==
  IF p = 0 THEN [L EXCEPT ![0] = Cell(key, src)]
  ELSE IF StoredWins(L[p], key, src) THEN Replay([L EXCEPT ![p] = Cell(key, src)], p \div 2, L[p].key, L[p].source)
       ELSE Replay(L, p \div 2, key, src)
DeleteMinInsert(L, kk, key) == Replay(L, (kk + L[0].source) \div 2, key, L[0].source)

\* ---- the machine ----
Init == /\ n \in NSrcs /\ seqs \in [0..(n - 1) -> SortedSeqs]
        /\ pos = [s \in 0..(n - 1) |-> 1] /\ k = NextPow2(n) /\ losers = Constructed(n)
        /\ phase = "insert" /\ nextIns = 0
Insert == /\ phase = "insert" /\ nextIns < n
          /\ losers' = InsertStart(losers, k, nextIns, seqs[nextIns][1])
          /\ nextIns' = nextIns + 1 /\ UNCHANGED <<n, seqs, pos, k, phase>>
InitStep == /\ phase = "insert" /\ nextIns = n
            /\ losers' = InitTree(losers, k) /\ phase' = "ready" /\ UNCHANGED <<n, seqs, pos, k, nextIns>>
Live == {s \in 0..(n - 1) : pos[s] <= Len(seqs[s])}
HeadOf(s) == IF s < n /\ pos[s] <= Len(seqs[s]) THEN seqs[s][pos[s]] ELSE MAXK
\* Iterator::advance()'s step(): only while unconsumed_count > 0
Pop == /\ phase = "ready" /\ Live # {}
       /\ LET s == losers[0].source IN
          /\ s \in 0..(n - 1)
          /\ pos' = [pos EXCEPT ![s] = @ + 1]
          /\ losers' = DeleteMinInsert(losers, k, IF pos[s] + 1 <= Len(seqs[s]) THEN seqs[s][pos[s] + 1] ELSE MAXK)
       /\ UNCHANGED <<n, seqs, k, phase, nextIns>>
Next == Insert \/ InitStep \/ Pop
Spec == Init /\ [][Next]_vars
FairSpec == Spec /\ WF_vars(Next)

\* ---- properties ----
Less(a, b) == a.key < b.key \/ (a.key = b.key /\ a.source < b.source)
MinSrc == CHOOSE s \in Live : \A t \in Live : HeadOf(s) < HeadOf(t) \/ (HeadOf(s) = HeadOf(t) /\ s <= t)
\* min_source() is the sequence with the smallest head, the smallest index among equals (= the most recent level)
WinnerIsMin == (phase = "ready" /\ Live # {}) => losers[0].source = MinSrc /\ losers[0].key = HeadOf(MinSrc)
\* every inner node holds the loser of the match between the winners of its subtrees, computed from the CURRENT heads
Ent(i) == IF i - k < n THEN Cell(HeadOf(i - k), i - k) ELSE Cell(MAXK, NONE)
RECURSIVE W(_)
W(node) == IF node >= k THEN Ent(node) ELSE LET a == W(2 * node) b == W(2 * node + 1) IN IF Less(b, a) THEN b ELSE a
Lo(node) == LET a == W(2 * node) b == W(2 * node + 1) IN IF Less(b, a) THEN a ELSE b
TournamentOK == phase = "ready" => /\ losers[0] = W(1)
                                   /\ \A p \in 1..(k - 1) : losers[p] = Lo(p)
\* no cell outside the array is touched, min_source() names a real sequence whenever it is asked
InBounds == /\ DOMAIN losers = 0..(2 * k - 1)
            /\ (phase = "ready" /\ Live # {}) => losers[0].source \in 0..(n - 1)
\* the merge ends: every sequence gets exhausted
Drained == <>(phase = "ready" /\ Live = {})
=============================================================================
