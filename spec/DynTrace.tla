------------------------------ MODULE DynTrace ------------------------------
(***************************************************************************)
(* Trace specification binding pgm::DynamicPGMIndex to DynamicPGM.tla.     *)
(* Reads the ndjson file named by the environment variable TRACE (written  *)
(* by harness/rec_dynamic.cpp or harness/rec_capi.cpp), first line =       *)
(* Config (run-time constants of all executions of the file).              *)
(*                                                                         *)
(* Tier A (contract, alarming): every logged answer must equal the answer  *)
(* of the ordered map `map`, which evolves by the abstract meaning of the  *)
(* logged updates; every logged layout must satisfy the C15 invariants.    *)
(* A failure is printed as  <<"TRACE-VIOLATION", prop, line, exec, what>>  *)
(* and counted in nviol; the trace is still consumed to its end so that    *)
(* every line is examined.                                                 *)
(* Tier B (model conformance, diagnostic): the logged layout must equal    *)
(* the state that DynamicPGM's own actions produce; the first difference   *)
(* of an execution is printed as <<"TRACE-DRIFT", ...>>.                   *)
(* The run ends with <<"TRACE-DONE", lines, nviol, ndrift>>; acceptance =  *)
(* POSTCONDITION (all lines consumed).                                     *)
(***************************************************************************)
EXTENDS Naturals, Integers, Sequences, FiniteSets, TLC, Json, IOUtils

Trc == ndJsonDeserialize(IOEnv.TRACE)
Cfg == Trc[1]
NLines == Len(Trc)

VARIABLES levels, used, idx, map, ops, hist,   \* DynamicPGM's variables
          l,        \* next line to consume
          x,        \* current execution id
          nk,       \* number of keys of the current execution
          nviol, ndrift, drifted,
          prevL,    \* last logged layout of this execution
          rej,      \* the last update was rejected: the next layout must equal prevL
          cnt,      \* event counters (reported in the evidence)
          done

D == INSTANCE DynamicPGM WITH Base <- Cfg.base, MinLevel <- Cfg.minl, MinIndexLevel <- Cfg.mini, MaxLvl <- Cfg.maxl,
                              Keys <- 0..(Cfg.nkeys - 1), Vals <- {}, IdxEps <- 1, MaxOps <- 0, Bulks <- {},
                              RecordHist <- FALSE

mvars == <<levels, used, idx, map, ops, hist>>
tvars == <<l, x, nk, nviol, ndrift, drifted, prevL, rej, cnt, done>>

Ev == Trc[l]
IsEvent(e) == l <= NLines /\ Ev.e = e /\ l' = l + 1
Viol(prop, what) == PrintT(<<"TRACE-VIOLATION", prop, l, x, what>>)
Drift(what) == PrintT(<<"TRACE-DRIFT", "C15", l, x, what>>)
\* evaluates checks (a sequence of <<ok, prop, what>>), prints the failed ones, returns how many failed
RECURSIVE CountFailed(_,_)
CountFailed(checks, i) == IF i > Len(checks) THEN 0
                          ELSE (IF checks[i][1] THEN 0 ELSE (IF Viol(checks[i][2], checks[i][3]) THEN 1 ELSE 1))
                               + CountFailed(checks, i + 1)

NoLayout == [used |-> -1]
\* Config.model = 0: the layout is not observable (C interface), only the ordered map is tracked
WithModel == Cfg.model = 1

TInit == /\ levels = D!EmptyLevels /\ used = Cfg.minl /\ idx = D!EmptyLevels /\ map = [k \in 0..(Cfg.nkeys - 1) |-> 0]
         /\ ops = 0 /\ hist = <<>>
         /\ l = 2 /\ x = -1 /\ nk = 0 /\ nviol = 0 /\ ndrift = 0 /\ drifted = FALSE /\ prevL = NoLayout /\ rej = FALSE
         /\ done = FALSE
         /\ cnt = [updates |-> 0, layouts |-> 0, observations |-> 0, point_answers |-> 0, traversals |-> 0, ranges |-> 0, merges_seen |-> 0]

TReset == /\ IsEvent("Reset")
          /\ x' = Ev.x /\ nk' = Ev.nkeys /\ drifted' = FALSE /\ prevL' = NoLayout /\ rej' = FALSE
          /\ levels' = D!EmptyLevels /\ used' = Cfg.minl /\ idx' = D!EmptyLevels
          /\ map' = [k \in 0..(Cfg.nkeys - 1) |-> 0]
          /\ UNCHANGED <<ops, hist, nviol, ndrift, cnt, done>>

\* constructor from a range: sorted input is loaded (first of equal keys wins), unsorted input must be rejected
TBulk == /\ IsEvent("Bulk")
         /\ LET b == Ev.pairs
                sorted == D!SortedBulk(b)
                st == D!BulkState(b)
                expected == IF sorted THEN "ok" ELSE "invalid_argument"
            IN /\ nviol' = nviol + CountFailed(<< <<Ev.out = expected, "C20", "bulk_outcome">> >>, 1)
               /\ IF sorted /\ Ev.out = "ok"
                  THEN /\ Assert(st.ok, "MaxLvl too small for this trace")
                       /\ IF WithModel THEN levels' = st.levels /\ used' = st.used /\ idx' = st.idx
                          ELSE UNCHANGED <<levels, used, idx>>
                       /\ map' = st.map
                  ELSE UNCHANGED <<levels, used, idx, map>>
         /\ UNCHANGED <<ops, hist, x, nk, ndrift, drifted, prevL, rej, cnt, done>>

TPut == /\ IsEvent("Put")
        /\ IF Ev.out = "ok"
           THEN /\ IF WithModel THEN D!Insert(D!Item(Ev.k, Ev.v, FALSE)) ELSE UNCHANGED <<levels, used, idx>>
                /\ map' = [map EXCEPT ![Ev.k] = Ev.v]
                /\ rej' = FALSE
           ELSE /\ UNCHANGED <<levels, used, idx, map>> /\ rej' = TRUE
        \* a value other than the reserved one must be accepted (values logged as 0 are the reserved tombstone)
        /\ nviol' = nviol + CountFailed(<< <<(Ev.out = "ok") = (Ev.v # 0), "C20", "put_outcome">>,
                                           <<Ev.out \in {"ok", "invalid_argument"}, "C20", "put_exception_type">> >>, 1)
        /\ cnt' = [cnt EXCEPT !.updates = @ + 1]
        /\ UNCHANGED <<ops, hist, x, nk, ndrift, drifted, prevL, done>>

TDel == /\ IsEvent("Del")
        /\ IF WithModel THEN D!Insert(D!Item(Ev.k, 0, TRUE)) ELSE UNCHANGED <<levels, used, idx>>
        /\ map' = [map EXCEPT ![Ev.k] = 0]
        /\ nviol' = nviol + CountFailed(<< <<Ev.out = "ok", "C05", "erase_outcome">> >>, 1)
        /\ rej' = FALSE
        /\ cnt' = [cnt EXCEPT !.updates = @ + 1]
        /\ UNCHANGED <<ops, hist, x, nk, ndrift, drifted, prevL, done>>

(***************************************************************************)
(* C15 on the logged layout                                                *)
(***************************************************************************)
LvOf(L, lvl) == LET S == {i \in 1..Len(L.lv) : L.lv[i].l = lvl} IN
                IF S = {} THEN <<>> ELSE L.lv[CHOOSE i \in S : TRUE].it
IxOf(L, lvl) == {i \in 1..Len(L.ix) : L.ix[i].l = lvl}
SortedStrictL(L) == \A e \in 1..Len(L.lv) : LET s == L.lv[e].it IN \A i \in 1..(Len(s) - 1) : s[i][1] < s[i + 1][1]
UniqueLevelsL(L) == \A a, b \in 1..Len(L.lv) : L.lv[a].l = L.lv[b].l => a = b
CapacityL(L) == \A e \in 1..Len(L.lv) : LET lvl == L.lv[e].l IN
                   /\ lvl >= Cfg.minl
                   /\ Len(L.lv[e].it) <= (IF lvl = Cfg.minl THEN D!BufMax ELSE D!MaxSize(lvl))
BeyondL(L) == L.beyond = 0 /\ \A e \in 1..Len(L.lv) : L.lv[e].l < L.used
\* every non-empty level at or above the index level owns an index built on exactly its keys; emptied levels' indexes are reset
IndexFreshL(L) == /\ \A e \in 1..Len(L.lv) : L.lv[e].l >= Cfg.mini =>
                        \E i \in IxOf(L, L.lv[e].l) : L.ix[i].fresh /\ ~L.ix[i].reset /\ L.ix[i].n = Len(L.lv[e].it)
                  /\ \A i \in 1..Len(L.ix) : LvOf(L, L.ix[i].l) = <<>> => L.ix[i].reset
TombstoneL(L) == \A e \in 1..Len(L.lv) : \A i \in 1..Len(L.lv[e].it) :
                    LET it == L.lv[e].it[i] IN (it[3] = 1) <=> (it[2] = 0)

\* tier B: the logged layout is the state of the specification
ModelLevel(lvl) == [i \in 1..Len(levels'[lvl]) |->
                       <<levels'[lvl][i].k, levels'[lvl][i].v, IF levels'[lvl][i].d THEN 1 ELSE 0>>]
SameAsModel(L) == /\ L.used = used'
                  /\ \A lvl \in Cfg.minl..Cfg.maxl : LvOf(L, lvl) = ModelLevel(lvl)
                  /\ \A lvl \in Cfg.minl..Cfg.maxl : (idx'[lvl] # <<>>) <=> (lvl >= Cfg.mini /\ LvOf(L, lvl) # <<>>)

TLayout == /\ IsEvent("Layout")
           /\ UNCHANGED mvars
           /\ LET L == Ev IN
              /\ nviol' = nviol + CountFailed(<<
                     <<SortedStrictL(L) /\ UniqueLevelsL(L), "C15", "sorted_strict">>,
                     <<CapacityL(L), "C15", "capacity">>,
                     <<BeyondL(L), "C15", "nothing_beyond_used">>,
                     <<IndexFreshL(L), "C15", "index_fresh">>,
                     <<TombstoneL(L), "C15", "tombstone_coding">>,
                     <<rej => (prevL = L), "C20", "rejected_update_changed_container">> >>, 1)
              /\ IF ~drifted /\ ~SameAsModel(L)
                 THEN Drift("layout") /\ drifted' = TRUE /\ ndrift' = ndrift + 1
                 ELSE UNCHANGED <<drifted, ndrift>>
              /\ prevL' = L
              /\ cnt' = [cnt EXCEPT !.layouts = @ + 1,
                                    !.merges_seen = @ + (IF prevL # NoLayout /\ prevL.used >= 0 /\ Len(L.lv) > 0 /\ prevL.lv # L.lv /\ LvOf(L, Cfg.minl) = <<>> THEN 1 ELSE 0)]
           /\ rej' = FALSE
           /\ UNCHANGED <<x, nk, done>>

(***************************************************************************)
(* C05 / C06 on the logged answers                                         *)
(***************************************************************************)
KeysX == 0..(nk - 1)
MaxK == Cfg.nkeys - 1
TObs == /\ IsEvent("Obs")
        /\ UNCHANGED mvars
        /\ LET O == Ev IN
           nviol' = nviol + CountFailed(<<
              <<\A k \in KeysX : O.find[k + 1] = map[k], "C05", "find">>,
              <<\A k \in KeysX : O.count[k + 1] = (IF map[k] = 0 THEN 0 ELSE 1), "C05", "count">>,
              <<\A k \in KeysX : O.lb[k + 1] = D!MapLowerBound(k), "C05", "lower_bound">>,
              <<O.iter = D!MapPairs(0, MaxK), "C06", "iterate_from_begin">>,
              <<\A i \in 1..Len(O.iters) : O.iters[i].r = D!MapPairs(O.iters[i].from, MaxK), "C06", "iterate_from_lower_bound">>,
              <<\A i \in 1..Len(O.ranges) : O.ranges[i].r = D!MapPairs(O.ranges[i].lo, O.ranges[i].hi), "C06", "range">>,
              <<O.size = Cardinality(D!LiveKeys), "C06", "size">>,
              <<O.empty = (D!LiveKeys = {}), "C06", "empty">> >>, 1)
        /\ cnt' = [cnt EXCEPT !.observations = @ + 1, !.point_answers = @ + 3 * nk, !.traversals = @ + 1 + Len(Ev.iters), !.ranges = @ + Len(Ev.ranges)]
        /\ UNCHANGED <<x, nk, ndrift, drifted, prevL, rej, done>>

\* observations through the C interface (find, lower_bound + iterator_next, begin, size), sampled
Prefix(s, k) == SubSeq(s, 1, IF Len(s) < k THEN Len(s) ELSE k)
TCObs == /\ IsEvent("CObs")
         /\ UNCHANGED mvars
         /\ LET O == Ev IN
            nviol' = nviol + CountFailed(<<
               <<\A i \in 1..Len(O.find) : O.find[i][2] = map[O.find[i][1]], "C18", "find">>,
               <<\A i \in 1..Len(O.lbs) : O.lbs[i].r = D!MapPairsUpTo(O.lbs[i].q, MaxK, O.lbs[i].limit), "C18", "lower_bound_iterator_next">>,
               <<O.begin = D!MapPairsUpTo(0, MaxK, O.blimit), "C18", "begin_iterator_next">>,
               <<O.size = Cardinality(D!LiveKeys), "C18", "size">> >>, 1)
         /\ cnt' = [cnt EXCEPT !.observations = @ + 1, !.point_answers = @ + Len(Ev.find), !.traversals = @ + 1 + Len(Ev.lbs)]
         /\ UNCHANGED <<x, nk, ndrift, drifted, prevL, rej, done>>

TEnd == /\ IsEvent("End")
        /\ UNCHANGED mvars
        /\ UNCHANGED <<x, nk, nviol, ndrift, drifted, prevL, rej, cnt, done>>

TDone == /\ l = NLines + 1 /\ ~done
         /\ PrintT(<<"TRACE-DONE", NLines, nviol, ndrift>>)
         /\ \A f \in DOMAIN cnt : PrintT(<<"TRACE-COUNT", f, cnt[f]>>)
         /\ done' = TRUE
         /\ UNCHANGED mvars /\ UNCHANGED <<l, x, nk, nviol, ndrift, drifted, prevL, rej, cnt>>

TNext == TReset \/ TBulk \/ TPut \/ TDel \/ TLayout \/ TObs \/ TCObs \/ TEnd \/ TDone
TSpec == TInit /\ [][TNext]_<<mvars, tvars>>

\* all lines were consumed: initial state + one state per line from the second on + the TDone step
TraceAccepted == TLCGet("stats").diameter = NLines + 1
=============================================================================
