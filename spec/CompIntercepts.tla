--------------------------- MODULE CompIntercepts ---------------------------
(***************************************************************************)
(* CompressedPGMIndex::CompressedLevel stores the intercepts of a level    *)
(* as the positions of the ones of an Elias-Fano coded bit vector: the     *)
(* first one at 0 (offset = the first raw intercept), then                 *)
(*     clamp(raw[i], raw[i-1] + 1, prev_level_size - 1) - offset,          *)
(* then (optionally) the extra segment at max - 2 and the closing one at   *)
(* max - 1, with max = prev_level_size - offset + 2.  sd_vector_builder    *)
(* requires strictly increasing positions below its size.                  *)
(*                                                                         *)
(* What the raw intercepts can be is abstracted by what C03/C04 guarantee: *)
(* segment i starts at rank r[i], starts are more than 2 Eps apart, and    *)
(* the stored line evaluated at the segment's first key is within Eps + 1  *)
(* of r[i] (Eps from the band, 1 from rounding and slope sharing).  TLC    *)
(* enumerates every such configuration of a small universe and checks that *)
(* the builder's preconditions hold and that the decoded intercept stays   *)
(* within Eps + 1 of the rank (the premise of the search contract, C08).   *)
(***************************************************************************)
EXTENDS Naturals, Integers, Sequences, FiniteSets, TLC
CONSTANTS Eps, MaxSegs, MaxRank, Slack,     \* Slack: how far a raw intercept may be from its rank
          MinGap                            \* least distance between the first ranks of consecutive segments: 2 Eps + 1 for the
                                            \* maximal segments of one sequential segmentation (C04), 1 at the seam of a chunked one
VARIABLES r, raw, P, extra
vars == <<r, raw, P, extra>>
Clamp(v, lo, hi) == IF v < lo THEN lo ELSE IF hi < v THEN hi ELSE v
Init == /\ r = <<0>> /\ raw \in {<<x>> : x \in 0..Slack} /\ P = 0 /\ extra = FALSE
AddSeg == /\ P = 0 /\ Len(r) < MaxSegs
          /\ \E nr \in (r[Len(r)] + MinGap)..MaxRank :
             \E nraw \in (nr - Slack)..(nr + Slack) :
                /\ nraw >= 0 /\ r' = Append(r, nr) /\ raw' = Append(raw, nraw)
          /\ UNCHANGED <<P, extra>>
Close == /\ P = 0
         \* the extra segment is added when the last segment's shared slope is exactly 0, which a level consisting of one
         \* segment cannot have (its slope range is [negative or 0, positive] with a positive midpoint)
         \* (likewise a one-segment level keeps its own mid slope, which is positive: its intercept at the first key is below
         \* its value at the closing point, hence raw[1] <= P there; with two or more segments P > 2 Eps + 1 >= raw[1] anyway)
         /\ \E p \in (r[Len(r)] + 1)..(MaxRank + 1) : \E ex \in BOOLEAN :
               (ex => Len(r) >= 2) /\ (Len(r) = 1 => raw[1] <= p) /\ P' = p /\ extra' = ex
         /\ UNCHANGED <<r, raw>>
Next == AddSeg \/ Close
Spec == Init /\ [][Next]_vars
m == Len(r)
Offset == raw[1]
MaxI == P - Offset + 2
Pos(i) == IF i = 1 THEN 0 ELSE Clamp(raw[i], raw[i - 1] + 1, P - 1) - Offset
AllPos == [i \in 1..m |-> Pos(i)] \o (IF extra THEN <<MaxI - 2>> ELSE <<>>) \o <<MaxI - 1>>
\* sd_vector_builder::set : positions strictly increasing, inside the vector
BuilderOK == P > 0 => /\ \A i \in 1..(Len(AllPos) - 1) : AllPos[i] < AllPos[i + 1]
                      /\ \A i \in 1..Len(AllPos) : AllPos[i] >= 0 /\ AllPos[i] < MaxI
\* std::clamp requires lo <= hi
ClampOK == P > 0 => \A i \in 2..m : raw[i - 1] + 1 <= P - 1
\* The lower clamp never binds: a stored intercept is never ABOVE the raw one.  Moving an intercept up moves the whole segment up,
\* and a point that sat Eps above its line is then predicted Eps + 1 too high (below the range search() returns).  This is what
\* MinGap = 2 Eps + 1 buys; with MinGap = 1 (the short segment that ends a chunk of make_segmentation_par, then the first segment
\* of the next chunk) TLC finds the shift: the defect F16 of CompressedPGMIndex, repaired by building its first level sequentially.
NoUpwardShift == P > 0 => \A i \in 2..m : raw[i] >= raw[i - 1] + 1
\* the decoded intercept is still a usable prediction of the segment's first rank
DecodedOK == P > 0 => \A i \in 1..m : LET d == Offset + Pos(i) IN d - r[i] <= Slack /\ r[i] - d <= Slack
=============================================================================
