----------------------------- MODULE MappedTrace -----------------------------
(***************************************************************************)
(* Trace specification for MappedPGMIndex (harness/rec_mapped.cpp).        *)
(* C11: every logged answer of lower_bound / upper_bound / count /         *)
(*      contains and the sequence read back through begin()/end() equal    *)
(*      the oracles on the recorded data.                                  *)
(* C12: files written by either constructor for the same data are          *)
(*      byte-identical (same content class), the header holds the number   *)
(*      of keys and the first key, reopening / closing never changes a     *)
(*      file, and every container answers alike (through C11).             *)
(* The file state follows Mapped.tla's actions: Create(range|raw) writes   *)
(* the image of the data, Create(reopen) and Close leave files unchanged.  *)
(***************************************************************************)
EXTENDS Naturals, Integers, Sequences, FiniteSets, TLC, Json, IOUtils

Trc == ndJsonDeserialize(IOEnv.TRACE)
NLines == Len(Trc)
VARIABLES l, x, data, fcls,   \* fcls[f]: content class of file f as last logged (-1: does not exist)
          ref,                \* the answers of the first container probed in this execution (C12: all containers answer alike)
          lastKind, nviol, ndrift, cnt, done
vars == <<l, x, data, fcls, ref, lastKind, nviol, ndrift, cnt, done>>
Ev == Trc[l]
IsEvent(e) == l <= NLines /\ Ev.e = e /\ l' = l + 1
Viol(prop, what) == PrintT(<<"TRACE-VIOLATION", prop, l, x, what>>)
RECURSIVE CountFailed(_,_)
CountFailed(checks, i) == IF i > Len(checks) THEN 0
                          ELSE (IF checks[i][1] THEN 0 ELSE (IF Viol(checks[i][2], checks[i][3]) THEN 1 ELSE 1))
                               + CountFailed(checks, i + 1)
RECURSIVE LBrec(_,_,_,_), UBrec(_,_,_,_)
LBrec(a, key, lo, hi) == IF lo >= hi THEN lo ELSE LET mid == (lo + hi) \div 2 IN
                         IF a[mid + 1] < key THEN LBrec(a, key, mid + 1, hi) ELSE LBrec(a, key, lo, mid)
UBrec(a, key, lo, hi) == IF lo >= hi THEN lo ELSE LET mid == (lo + hi) \div 2 IN
                         IF a[mid + 1] <= key THEN UBrec(a, key, mid + 1, hi) ELSE UBrec(a, key, lo, mid)
LB(key) == LBrec(data, key, 0, Len(data))
UB(key) == UBrec(data, key, 0, Len(data))

TInit == l = 2 /\ x = -1 /\ data = <<>> /\ fcls = <<-1, -1>> /\ ref = <<>> /\ lastKind = "none" /\ nviol = 0 /\ ndrift = 0
         /\ cnt = [probes |-> 0, containers |-> 0, files |-> 0] /\ done = FALSE
TReset == IsEvent("Reset") /\ x' = Ev.x /\ data' = <<>> /\ fcls' = <<-1, -1>> /\ ref' = <<>> /\ lastKind' = "none" /\ UNCHANGED <<nviol, ndrift, cnt, done>>
TData == IsEvent("Data") /\ data' = Ev.data /\ UNCHANGED <<x, fcls, ref, lastKind, nviol, ndrift, cnt, done>>
TCreate == /\ IsEvent("Create") /\ lastKind' = Ev.kind
           /\ nviol' = nviol + CountFailed(<< <<Ev.out = "ok", "C12", "constructor_failed">> >>, 1)
           /\ cnt' = [cnt EXCEPT !.containers = @ + 1]
           /\ UNCHANGED <<x, data, fcls, ref, ndrift, done>>
TClose == IsEvent("Close") /\ lastKind' = "close" /\ UNCHANGED <<x, data, fcls, ref, nviol, ndrift, cnt, done>>
\* a File line reports one file after the last action
TFile ==
  /\ IsEvent("File")
  /\ LET f == Ev.file
         other == 3 - f
         wrote == lastKind \in {"range", "raw"}
     IN /\ nviol' = nviol + CountFailed(<<
              \* reopening / closing never alters a file (its content class stays what it was)
              <<(lastKind \in {"reopen", "close"} /\ Ev.when # "end") => Ev.cls = fcls[f], "C12", "file_changed_by_reopen_or_close">>,
              <<Ev.when = "end" => Ev.cls = fcls[f], "C12", "file_changed_after_last_action">>,
              \* the two construction paths write byte-identical files: all existing files share one content class
              <<(Ev.exists = 1 /\ fcls[other] >= 0) => Ev.cls = fcls[other], "C12", "files_of_the_two_constructors_differ">> >>, 1)
        \* tier B (never an alarm: the property does not fix a file layout): with the layout the code has today - header_bytes, n,
        \* first_key, levels_offsets, segments, then the keys - the header fields describe the data
        /\ ndrift' = ndrift + (IF Ev.exists = 1 /\ ~(Ev.hn = Len(data) /\ Ev.keys_at_end /\ Ev.hfirst = data[1])
                                THEN (IF PrintT(<<"TRACE-DRIFT", "C12", l, x, "header_fields_do_not_describe_the_data">>) THEN 1 ELSE 1) ELSE 0)
        /\ fcls' = [fcls EXCEPT ![f] = IF Ev.exists = 1 THEN Ev.cls ELSE -1]
        /\ cnt' = [cnt EXCEPT !.files = @ + 1]
  /\ UNCHANGED <<x, data, ref, lastKind, done>>
TSeq == /\ IsEvent("Seq")
        /\ nviol' = nviol + CountFailed(<< <<Ev.seq = data /\ Ev.size = Len(data), "C11", "begin_end_size_do_not_expose_the_sequence">>,
                                           <<Ev.seq = data, "C12", "container_does_not_hold_the_sequence">> >>, 1)
        /\ UNCHANGED <<x, data, fcls, ref, lastKind, ndrift, cnt, done>>
\* rows: <<q, lower_bound, upper_bound, count, contains>>
TProbe == /\ IsEvent("Probe")
          /\ nviol' = nviol + CountFailed(<<
                <<\A i \in 1..Len(Ev.rows) : Ev.rows[i][2] = LB(Ev.rows[i][1]), "C11", "lower_bound">>,
                <<\A i \in 1..Len(Ev.rows) : Ev.rows[i][3] = UB(Ev.rows[i][1]), "C11", "upper_bound">>,
                <<\A i \in 1..Len(Ev.rows) : Ev.rows[i][4] = UB(Ev.rows[i][1]) - LB(Ev.rows[i][1]), "C11", "count">>,
                <<\A i \in 1..Len(Ev.rows) : (Ev.rows[i][5] = 1) = (UB(Ev.rows[i][1]) > LB(Ev.rows[i][1])), "C11", "contains">>,
                <<ref = <<>> \/ Ev.rows = ref, "C12", "containers_of_the_same_data_answer_differently">> >>, 1)
          /\ ref' = (IF ref = <<>> THEN Ev.rows ELSE ref)
          /\ cnt' = [cnt EXCEPT !.probes = @ + Len(Ev.rows)]
          /\ UNCHANGED <<x, data, fcls, lastKind, ndrift, done>>
TEnd == IsEvent("End") /\ UNCHANGED <<x, data, fcls, ref, lastKind, nviol, ndrift, cnt, done>>
TDone == /\ l = NLines + 1 /\ ~done /\ PrintT(<<"TRACE-DONE", NLines, nviol, ndrift>>)
         /\ \A f \in DOMAIN cnt : PrintT(<<"TRACE-COUNT", f, cnt[f]>>)
         /\ done' = TRUE /\ UNCHANGED <<l, x, data, fcls, ref, lastKind, nviol, ndrift, cnt>>
TNext == TReset \/ TData \/ TCreate \/ TClose \/ TFile \/ TSeq \/ TProbe \/ TEnd \/ TDone
TSpec == TInit /\ [][TNext]_vars
TraceAccepted == TLCGet("stats").diameter = NLines + 1
=============================================================================
