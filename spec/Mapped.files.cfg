CONSTANTS Mode = "files"
 U = 4
 N = 3
 Eps = 1
 MaxActs = 6
 RawStoresFirstKey = TRUE
SPECIFICATION Spec
INVARIANTS C12
PROPERTY ReopenPure
CONSTRAINT EmitOrder
CHECK_DEADLOCK FALSE
