\* behaviour generation (BFS): every history of exactly MaxOps updates over 4 keys / 1 value from the empty container
CONSTANTS Base = 2
 MinLevel = 1
 MinIndexLevel = 2
 MaxLvl = 5
 Keys = {0,1,2,3}
 Vals = {1}
 IdxEps = 1
 MaxOps = 5
 Bulks <- BulksEmpty
 MaxBulk = 0
 RecordHist = TRUE
SPECIFICATION Spec
INVARIANTS Refines
CONSTRAINT EmitHist
CHECK_DEADLOCK FALSE
