\* behaviour generation (simulation): random histories of MaxOps updates after a random small bulk load
CONSTANTS Base = 2
 MinLevel = 1
 MinIndexLevel = 2
 MaxLvl = 8
 Keys = {0,1,2,3,4,5}
 Vals = {1,2,3}
 IdxEps = 1
 MaxOps = 40
 Bulks <- BulksSorted
 MaxBulk = 2
 RecordHist = TRUE
SPECIFICATION Spec
INVARIANTS Refines
CONSTRAINT EmitHist
CHECK_DEADLOCK FALSE
