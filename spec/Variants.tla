------------------------------ MODULE Variants ------------------------------
(***************************************************************************)
(* The top structures of the variants in include/pgm/pgm_index_variants.hpp *)
(* (they share PGMIndex's bottom level, specified in PGMIndex.tla):        *)
(*                                                                         *)
(*  Mode = "bucketing" : BucketingPGMIndex::build_top_level and            *)
(*                       segment_for_key (step, table fill with the        *)
(*                       overflow guard, bucket -> slice -> upper_bound-1) *)
(*  Mode = "eliasfano" : the Elias-Fano code of the rebased segment keys   *)
(*                       (low bits, unary-coded high bits, select0/select1)*)
(*                       and EliasFanoPGMIndex::pred, branch by branch     *)
(*  Mode = "routing"   : the per-level window scan / windowed binary       *)
(*                       search shared by PGMIndex and CompressedPGMIndex: *)
(*                       under the premise that the prediction is within   *)
(*                       EpsRec+1 of the responsible segment, the selected *)
(*                       segment is the responsible one and no access      *)
(*                       leaves the level (the sentinel argument)          *)
(*                                                                         *)
(* One initial state per structure (all structures of the small universe   *)
(* are enumerated), one Query step per key.                                *)
(***************************************************************************)
EXTENDS Naturals, Integers, Sequences, FiniteSets, TLC

CONSTANTS Mode,
          KeyBits,      \* keys are 0 .. 2^KeyBits - 2, the reserved value is 2^KeyBits - 1
          T,            \* bucketing: TopLevelSize
          WLs,          \* eliasfano: the widths of the low part that are tried
          EpsRec, Path  \* routing: window half-width, "linear" or "binary"

RECURSIVE Pow2(_)
Pow2(e) == IF e = 0 THEN 1 ELSE 2 * Pow2(e - 1)
MaxKey == Pow2(KeyBits) - 1                 \* the sentinel
RECURSIVE BitWidth(_)
BitWidth(v) == IF v = 0 THEN 0 ELSE 1 + BitWidth(v \div 2)
CeilDiv(a, b) == a \div b + (IF a % b > 0 THEN 1 ELSE 0)
RECURSIVE SortSet(_)
SortSet(S) == IF S = {} THEN <<>> ELSE LET m == CHOOSE v \in S : \A w \in S : v <= w IN <<m>> \o SortSet(S \ {m})

VARIABLES segs,   \* segment keys: real ones (first = first key), optional extra (last+1), sentinel
          first, last,
          wl,     \* eliasfano: width of the low part
          pos,    \* routing: the prediction handed to the level
          q, res, oob, done
vars == <<segs, first, last, wl, pos, q, res, oob, done>>

\* rightmost entry (0-based) with key <= key among all entries but the sentinel
Resp(key) == Cardinality({j \in 1..(Len(segs) - 1) : segs[j] <= key}) - 1

(***************************************************************************)
(* Bucketing                                                               *)
(***************************************************************************)
IsPow2(v) == \E e \in 0..KeyBits : v = Pow2(e)
Step == IF IsPow2(T) THEN Pow2(KeyBits - BitWidth(T) + 1)
        ELSE LET s == CeilDiv(last - first, T) IN IF s > 1 THEN s ELSE 1
TableSize == IF IsPow2(T) THEN CeilDiv(last - first, Step) + 2 ELSE T + 2
\* the while loop of the table fill: advance k while segments[k].key - first_key < upper_bound
RECURSIVE Advance(_,_)
Advance(k, ub) == IF k < Len(segs) /\ segs[k + 1] - first < ub THEN Advance(k + 1, ub) ELSE k
\* top[i] for i = 0 .. TableSize-1 (function on 0-based indices)
RECURSIVE Fill(_,_,_)
Fill(i, k, acc) == IF i >= TableSize - 1 THEN Append(acc, Len(segs))
                   ELSE LET prod == i * Step
                            ub == IF prod > MaxKey THEN MaxKey ELSE prod        \* __builtin_mul_overflow guard
                            k2 == Advance(k, ub)
                        IN Fill(i + 1, k2, Append(acc, k2))
Top == Fill(1, 1, <<0>>)                       \* 1-based sequence holding top[0..TableSize-1]
BucketLookup(key) ==
  LET j == (key - first) \div Step
      bad == j + 2 > Len(Top)
      a == IF bad THEN 0 ELSE Top[j + 1]
      b == IF bad THEN 0 ELSE Top[j + 2]
      ub == a + Cardinality({i \in (a + 1)..b : segs[i] <= key})          \* upper_bound(first, last, key)
  IN [bucket |-> j, lo |-> a, hi |-> b, seg |-> ub - 1, oob |-> bad \/ ub - 1 < 0 \/ b > Len(segs) \/ a > b]

(***************************************************************************)
(* Elias-Fano                                                              *)
(***************************************************************************)
Vals == [i \in 1..(Len(segs) - 1) |-> segs[i] - first]       \* rebased keys without the sentinel (non-decreasing, Vals[1] = 0)
M == Len(Vals)
Size == Vals[M] + 1                                          \* sd_vector: size = last value + 1
Buckets == CeilDiv(Size, Pow2(wl))
Low(i) == Vals[i + 1] % Pow2(wl)                             \* low[i], 0-based
HighOf(i) == Vals[i + 1] \div Pow2(wl)
\* high bit vector, 0-based positions: element i (0-based) is the 1 at position HighOf(i) + i; length M + Buckets
HighLen == M + Buckets
HighBit(p) == \E i \in 0..(M - 1) : HighOf(i) + i = p
NZeros == HighLen - M
Select1(j) == HighOf(j - 1) + (j - 1)                        \* position of the j-th one (1-based j)
Select0(j) == CHOOSE p \in 0..(HighLen - 1) : ~HighBit(p) /\ Cardinality({r \in 0..p : ~HighBit(r)}) = j
PrevOne(p) == CHOOSE r \in 0..p : HighBit(r) /\ \A t \in (r + 1)..p : ~HighBit(t)
\* lower_bound of val_low in low[lo .. lo+count) (the while loop of pred)
RECURSIVE LowSearch(_,_,_)
LowSearch(lo, count, v) == IF count <= 0 THEN lo
                           ELSE LET step == count \div 2 mid == lo + step IN
                                IF Low(mid) < v THEN LowSearch(mid + 1, count - step - 1, v) ELSE LowSearch(lo, step, v)
Pred(i) ==
  IF i + 1 >= Size
  THEN [idx |-> M - 1, val |-> Low(M - 1) + (Select1(M) + 1 - M) * Pow2(wl), oob |-> FALSE]
  ELSE LET i1 == i + 1
           hv == i1 \div Pow2(wl)
           bad0 == hv + 1 > NZeros
           selHigh == IF bad0 THEN 0 ELSE Select0(hv + 1)
           rankHi == selHigh - hv
           rankLo0 == IF hv = 0 THEN 0 ELSE Select0(hv) - hv + 1
           vlow == i1 % Pow2(wl)
           rl == LowSearch(rankLo0, rankHi - rankLo0, vlow) - 1
           sh == selHigh - (rankHi - rl)
           bad1 == rl < 0 \/ sh < 0 \/ sh >= HighLen
           h == IF bad0 \/ bad1 THEN 0 ELSE IF HighBit(sh) THEN hv ELSE PrevOne(sh) - rl
       IN IF bad0 \/ rankHi = 0 THEN [idx |-> 0, val |-> 0, oob |-> TRUE]
          ELSE [idx |-> rl, val |-> (IF bad1 THEN 0 ELSE Low(rl) + h * Pow2(wl)), oob |-> bad1]

(***************************************************************************)
(* Routing (window scan / windowed binary search on one level)             *)
(***************************************************************************)
SubEps(v, e) == IF v <= e THEN 0 ELSE v - e
AddEps(v, e, size) == IF v + e + 2 >= size THEN size ELSE v + e + 2
Route(key, p) ==
  LET cnt == Len(segs)
      wlo == SubEps(p, EpsRec + 1)
  IN IF Path = "linear"
     THEN LET C == {j \in wlo..(cnt - 2) : segs[j + 2] > key}            \* for (; next(lo)->key <= key; ++lo)
          IN IF C = {} THEN [seg |-> 0, touched |-> 0, oob |-> TRUE]
             ELSE LET stop == CHOOSE j \in C : \A i \in C : j <= i IN [seg |-> stop, touched |-> stop - wlo + 1, oob |-> FALSE]
     ELSE LET whi == AddEps(p, EpsRec, cnt - 1)
              ub == wlo + Cardinality({j \in wlo..(whi - 1) : segs[j + 1] <= key})
          IN [seg |-> ub - 1, touched |-> whi - wlo, oob |-> ub - 1 < 0 \/ wlo > whi]

(***************************************************************************)
(* Enumeration of the structures and the query step                        *)
(***************************************************************************)
Structures == {s \in [f : 0..(MaxKey - 1), l : 0..(MaxKey - 1), S : SUBSET (1..MaxKey), extra : BOOLEAN] :
                 /\ s.f <= s.l
                 /\ \A v \in s.S : s.f < v /\ v <= s.l + 1 /\ v < MaxKey}
SegsOf(s) == SortSet({s.f} \cup s.S) \o (IF s.extra /\ s.l + 1 < MaxKey + 1 THEN <<s.l + 1>> ELSE <<>>) \o <<MaxKey>>

Init == /\ \E s \in Structures : segs = SegsOf(s) /\ first = s.f /\ last = s.l
        /\ wl \in (IF Mode = "eliasfano" THEN WLs ELSE {0})
        /\ pos = 0 /\ q = 0 /\ res = [oob |-> FALSE] /\ oob = FALSE /\ done = FALSE

Query(key) ==
  /\ ~done /\ done' = TRUE /\ q' = key
  /\ UNCHANGED <<segs, first, last, wl>>
  /\ CASE Mode = "bucketing" -> /\ key >= first /\ key <= last
                                /\ res' = BucketLookup(key) /\ oob' = BucketLookup(key).oob /\ pos' = pos
       [] Mode = "eliasfano" -> /\ key >= first
                                /\ res' = Pred(key - first) /\ oob' = Pred(key - first).oob /\ pos' = pos
       [] OTHER -> /\ key >= first
                   \* premise: the prediction is within EpsRec + 1 of the responsible segment
                   /\ \E p \in 0..(Len(segs) - 1) :
                        /\ p - Resp(key) <= EpsRec + 1 /\ Resp(key) - p <= EpsRec + 1
                        /\ pos' = p /\ res' = Route(key, p) /\ oob' = Route(key, p).oob

Next == \E key \in 0..(MaxKey - 1) : Query(key)
Spec == Init /\ [][Next]_vars

InBounds == ~oob
\* bucketing: the slice (or the segment just before it) holds the responsible segment and the lookup returns it
BucketingOK == (done /\ Mode = "bucketing") => /\ res.seg = Resp(q)
                                               /\ res.lo - 1 <= Resp(q) /\ Resp(q) < res.hi
                                               /\ Len(Top) = TableSize
\* the table is monotone and ends with the number of entries
TableOK == Mode = "bucketing" => /\ \A i \in 1..(Len(Top) - 1) : Top[i] <= Top[i + 1]
                                 /\ Top[Len(Top)] = Len(segs) /\ Top[1] = 0
EliasFanoOK == (done /\ Mode = "eliasfano") => res.idx = Resp(q) /\ res.val = segs[Resp(q) + 1] - first
RoutingOK == (done /\ Mode = "routing") => res.seg = Resp(q) /\ res.touched <= 2 * EpsRec + 3
WitnessEmptyBucket == ~(done /\ Mode = "bucketing" /\ res.lo = res.hi)
WitnessOverflowGuard == ~(Mode = "bucketing" /\ \E i \in 1..(TableSize - 2) : i * Step > MaxKey)
WitnessBeyond == ~(done /\ Mode = "eliasfano" /\ q - first + 1 >= Size)
WitnessPrevOne == ~(done /\ Mode = "eliasfano" /\ q - first + 1 < Size /\ res.idx >= 0 /\ HighOf(res.idx) < (q - first + 1) \div Pow2(wl))
=============================================================================
