CONSTANTS NSrcs = {6,7,8,9}
 Keys = {0,1}
 MaxLen = 1
 TieBreak = "source"
SPECIFICATION Spec
INVARIANTS WinnerIsMin TournamentOK InBounds
CHECK_DEADLOCK FALSE
