---------------------------- MODULE Segmentation ----------------------------
(***************************************************************************)
(* make_segmentation / make_segmentation_par of                            *)
(* include/pgm/piecewise_linear_model.hpp on top of the hull machine of    *)
(* PLAOps: which (key, rank) points a sorted array with duplicates hands   *)
(* to the builder (first occurrences, gap guards after duplicate runs, the *)
(* closing point), how the array is split in chunks (skip of a run that    *)
(* continues across a chunk start, empty chunks), and the concatenation of *)
(* the per-chunk segments.  Arrays are 1-based sequences; in(i) = a[i+1];  *)
(* start/end/ranks are 0-based like the code.                              *)
(***************************************************************************)
EXTENDS PLAOps, TLC

In(a, i) == a[i + 1]

\* the point contributed by loop index i of make_segmentation(n, start, end) (start < i < end - 1), <<>> if none
LoopPoint(a, i) ==
  IF In(a, i) = In(a, i - 1)
  THEN (IF In(a, i) + 1 < In(a, i + 1) THEN <<<<In(a, i) + 1, i>>>> ELSE <<>>)      \* gap guard after a run of duplicates
  ELSE <<<<In(a, i), i>>>>                                                          \* first occurrence
RECURSIVE LoopPoints(_,_,_)
LoopPoints(a, i, end) == IF i >= end - 1 THEN <<>> ELSE LoopPoint(a, i) \o LoopPoints(a, i + 1, end)

\* all points fed by make_segmentation(n, start, end, ...), in order
PtsOfRange(a, n, start, end) ==
     <<<<In(a, start), start>>>>
  \o LoopPoints(a, start + 1, end)
  \o (IF end >= start + 2 /\ In(a, end - 1) # In(a, end - 2) THEN <<<<In(a, end - 1), end - 1>>>>
      \* a chunk that ends with a run of duplicates: gap guard at the rank of the run's last element
      ELSE IF end >= start + 2 /\ end < n /\ In(a, end - 1) + 1 < In(a, end) THEN <<<<In(a, end - 1) + 1, end - 1>>>>
      ELSE <<>>)
  \o (IF end = n THEN <<<<In(a, n - 1) + 1, n>>>> ELSE <<>>)                        \* closing point: keys > last map to n
Pts(a) == PtsOfRange(a, Len(a), 0, Len(a))

\* make_segmentation_par: chunk i of c covers [first, last); a run of duplicates that crosses the end of the chunk is
\* taken into the chunk, a run continuing across the chunk start is skipped (it belongs to the chunk where it starts)
RECURSIVE SkipRun(_,_,_), ExtendRun(_,_,_)
SkipRun(a, first, last) == IF first < last /\ In(a, first) = In(a, first - 1) THEN SkipRun(a, first + 1, last) ELSE first
ExtendRun(a, last, n) == IF last < n /\ In(a, last) = In(a, last - 1) THEN ExtendRun(a, last + 1, n) ELSE last
ChunkRange(a, n, c, i) ==
  LET size == n \div c
      first0 == i * size
      last == ExtendRun(a, IF i = c - 1 THEN n ELSE first0 + size, n)
      first == IF first0 > 0 THEN SkipRun(a, first0, last) ELSE first0
  IN <<first, last>>
\* the non-empty chunks, in order: sequence of <<first, last>>
RECURSIVE ChunksFrom(_,_,_,_)
ChunksFrom(a, n, c, i) == IF i >= c THEN <<>>
                          ELSE LET r == ChunkRange(a, n, c, i) IN
                               (IF r[1] = r[2] THEN <<>> ELSE <<r>>) \o ChunksFrom(a, n, c, i + 1)
\* c = 1 is the sequential builder (make_segmentation_par falls back to make_segmentation); the code only splits inputs
\* of at least 2^15 elements, the model any input that gives every chunk at least one element
Chunks(a, c) == IF c = 1 \/ Len(a) \div c = 0 THEN <<<<0, Len(a)>>>> ELSE ChunksFrom(a, Len(a), c, 0)

\* result of the whole build: sequence over chunks of [pts, segs, cuts]
ChunkResult(a, r, eps) == LET pts == PtsOfRange(a, Len(a), r[1], r[2])
                              sg == Segm(pts, eps)
                          IN [pts |-> pts, segs |-> sg[1], cuts |-> sg[2]]
Build(a, c, eps) == LET ch == Chunks(a, c) IN [j \in 1..Len(ch) |-> ChunkResult(a, ch[j], eps)]

RECURSIVE FlatSegs(_,_), FlatPts(_,_)
FlatSegs(res, j) == IF j > Len(res) THEN <<>> ELSE res[j].segs \o FlatSegs(res, j + 1)
FlatPts(res, j) == IF j > Len(res) THEN <<>> ELSE res[j].pts \o FlatPts(res, j + 1)
AllSegs(res) == FlatSegs(res, 1)
AllPts(res) == FlatPts(res, 1)

(***************************************************************************)
(* C03                                                                     *)
(***************************************************************************)
Ordered(res) == LET s == AllSegs(res) IN \A j \in 1..(Len(s) - 1) : s[j].key < s[j + 1].key
\* for each distinct key of the array, the key at its first-occurrence rank was fed
FirstRank(a, k) == Cardinality({i \in 1..Len(a) : a[i] < k})
FirstOccurrencesFed(a, res) == LET P == Range(AllPts(res)) IN \A i \in 1..Len(a) : <<a[i], FirstRank(a, a[i])>> \in P
\* segment j of a chunk covers points cuts[j] .. cuts[j+1]-1 ; every point is within eps + 1/2 of its segment's line
SegPtsRange(r, j) == <<r.cuts[j], IF j = Len(r.cuts) THEN Len(r.pts) ELSE r.cuts[j + 1] - 1>>
ChunkWithinEps(r, eps) == /\ Len(r.cuts) = Len(r.segs) /\ (r.pts # <<>> => r.cuts[1] = 1)
                          /\ \A j \in 1..Len(r.segs) : LET g == SegPtsRange(r, j) IN
                                /\ r.segs[j].key = r.pts[g[1]][1]
                                /\ \A i \in g[1]..g[2] : WithinEpsHalf(r.segs[j], r.pts[i], eps)
WithinEps(res, eps) == \A c \in 1..Len(res) : ChunkWithinEps(res[c], eps)
C03(a, res, eps) == Ordered(res) /\ FirstOccurrencesFed(a, res) /\ WithinEps(res, eps)

(***************************************************************************)
(* C04                                                                     *)
(***************************************************************************)
ChunkMaximal(r, eps) == \A j \in 1..(Len(r.segs) - 1) : LET g == SegPtsRange(r, j) IN
                            ~Feasible(PtSet(r.pts, g[1], g[2] + 1), eps)
Maximal(res, eps) == \A c \in 1..Len(res) : ChunkMaximal(res[c], eps)
ChunkStartsApart(r, eps) == \A j \in 1..(Len(r.segs) - 1) : r.pts[r.cuts[j + 1]][2] - r.pts[r.cuts[j]][2] > 2 * eps
StartsApart(res, eps) == \A c \in 1..Len(res) : ChunkStartsApart(res[c], eps)
CountBound(a, res, c, eps) == Len(AllSegs(res)) <= (Len(a) \div (2 * eps + 1)) + c + 1
\* sequential: minimum over all partitions of the fed points (DP over the oracle); chunked: at most c-1 more than that
CountMinimal(a, res, c, eps, opt) == IF c = 1 THEN Len(AllSegs(res)) = opt ELSE Len(AllSegs(res)) <= opt + c - 1
=============================================================================
