---------------------------- MODULE ReadersTrace ----------------------------
(***************************************************************************)
(* Trace specification for C16 (harness/rec_readers.cpp, built with        *)
(* ThreadSanitizer): for each object, the answers computed sequentially    *)
(* before the threads start, every (query, answer) pair logged by every    *)
(* thread, and the sequential answers again after the join.  Required:     *)
(* each concurrent answer equals the sequential answer to the same query,  *)
(* and the object answers after exactly as before (nothing was modified).  *)
(* A data-race report aborts the recorder: the Crash line has no action.   *)
(***************************************************************************)
EXTENDS Naturals, Integers, Sequences, FiniteSets, TLC, Json, IOUtils
Trc == ndJsonDeserialize(IOEnv.TRACE)
NLines == Len(Trc)
VARIABLES l, x, seqAns, nviol, cnt, done
vars == <<l, x, seqAns, nviol, cnt, done>>
Ev == Trc[l]
IsEvent(e) == l <= NLines /\ Ev.e = e /\ l' = l + 1
Viol(what) == PrintT(<<"TRACE-VIOLATION", "C16", l, x, what>>)
TInit == l = 2 /\ x = -1 /\ seqAns = <<>> /\ nviol = 0 /\ cnt = [objects |-> 0, threads |-> 0, concurrent_queries |-> 0] /\ done = FALSE
TReset == IsEvent("Reset") /\ x' = Ev.x /\ seqAns' = <<>> /\ cnt' = [cnt EXCEPT !.objects = @ + 1] /\ UNCHANGED <<nviol, done>>
TSequential == /\ IsEvent("Sequential")
               /\ IF Ev.when = "before" THEN seqAns' = Ev.answers /\ UNCHANGED nviol
                  ELSE /\ UNCHANGED seqAns
                       /\ nviol' = nviol + (IF Ev.answers = seqAns THEN 0 ELSE (IF Viol("object_changed_while_only_being_read") THEN 1 ELSE 1))
               /\ UNCHANGED <<x, cnt, done>>
TThread == /\ IsEvent("Thread")
           /\ nviol' = nviol + (IF \A i \in 1..Len(Ev.log) : Ev.log[i][2] = seqAns[Ev.log[i][1] + 1] THEN 0
                                ELSE (IF Viol("concurrent_answer_differs_from_sequential_answer") THEN 1 ELSE 1))
           /\ cnt' = [cnt EXCEPT !.threads = @ + 1, !.concurrent_queries = @ + Len(Ev.log)]
           /\ UNCHANGED <<x, seqAns, done>>
TEnd == IsEvent("End") /\ UNCHANGED <<x, seqAns, nviol, cnt, done>>
TDone == /\ l = NLines + 1 /\ ~done /\ PrintT(<<"TRACE-DONE", NLines, nviol, 0>>)
         /\ \A f \in DOMAIN cnt : PrintT(<<"TRACE-COUNT", f, cnt[f]>>)
         /\ done' = TRUE /\ UNCHANGED <<l, x, seqAns, nviol, cnt>>
TNext == TReset \/ TSequential \/ TThread \/ TEnd \/ TDone
TSpec == TInit /\ [][TNext]_vars
TraceAccepted == TLCGet("stats").diameter = NLines + 1
=============================================================================
