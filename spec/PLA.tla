-------------------------------- MODULE PLA --------------------------------
(***************************************************************************)
(* OptimalPiecewiseLinearModel as a state machine: points of a grid are    *)
(* fed one at a time (strictly increasing x and y, as make_segmentation    *)
(* feeds (key, rank) points); each Feed step is add_point with its four    *)
(* outcomes (first, second, accept with hull update, reject = emit +       *)
(* restart).  Properties tie every decision and the extreme-slope          *)
(* rectangle to the independent oracle of PLAOps.                          *)
(***************************************************************************)
EXTENDS PLAOps, TLC
CONSTANTS XMax, YMax, Eps, MaxPts
VARIABLES m,        \* builder state (record, see PLAOps)
          cur,      \* ghost: set of points of the segment under construction
          fed,      \* ghost: all points fed so far
          lastAcc,  \* ghost: did the last add_point accept
          outcome   \* ghost: which branch the last step took
vars == <<m, cur, fed, lastAcc, outcome>>

Init == m = Fresh /\ cur = {} /\ fed = <<>> /\ lastAcc = TRUE /\ outcome = "none"

Feed(pt) ==
  LET r == AddPoint(m, pt, Eps) IN
  /\ fed' = Append(fed, pt)
  /\ lastAcc' = r[1]
  /\ IF r[1] THEN /\ m' = r[2] /\ cur' = (IF m.nin = 0 THEN {pt} ELSE cur \cup {pt})
                  /\ outcome' = (IF m.nin = 0 THEN "first" ELSE IF m.nin = 1 THEN "second"
                                 ELSE IF r[2].rect # m.rect THEN "accept_update" ELSE "accept_inside")
     ELSE /\ m' = StartWith(pt, Eps) /\ cur' = {pt} /\ outcome' = "reject"

Next == /\ Len(fed) < MaxPts
        /\ \E x \in 0..XMax, y \in 0..YMax :
              /\ (fed # <<>> => x > fed[Len(fed)][1] /\ y > fed[Len(fed)][2])
              /\ Feed(<<x, y>>)
Spec == Init /\ [][Next]_vars

\* every accepted prefix is feasible (C03's reason: the emitted line exists)
DecisionOK == fed # <<>> => IF lastAcc THEN Feasible(cur, Eps) ELSE Cardinality(cur) = 1
\* the rectangle's diagonals are exactly the extreme feasible slopes
RectOK == m.nin >= 2 => /\ IsMinSlope(Sub(m.rect[3], m.rect[1]), cur, Eps)
                        /\ IsMaxSlope(Sub(m.rect[4], m.rect[2]), cur, Eps)
\* the reported line (max slope through the rounded intercept) is within eps + 1/2 of every point of the segment
ReportedLineOK == m.nin >= 1 => \A p \in cur : WithinEpsHalf(SegOf(m), p, Eps)
\* hull bookkeeping never indexes outside the hulls
HullInBounds == m.nin >= 1 => /\ 1 <= m.us /\ m.us <= Len(m.upper) /\ 1 <= m.ls /\ m.ls <= Len(m.lower)
\* a rejection happens only when no line fits the segment plus the new point (C04: maximality)
Maximal == [][ (lastAcc' = FALSE) => ~Feasible(cur \cup {fed'[Len(fed')]}, Eps) ]_vars
\* reachability witnesses
WitnessReject == outcome # "reject"
WitnessUpdate == outcome # "accept_update"
WitnessInside == outcome # "accept_inside"
=============================================================================
