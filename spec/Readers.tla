------------------------------- MODULE Readers -------------------------------
(***************************************************************************)
(* C16: any number of threads may query one constructed index without      *)
(* synchronisation.  The design reason: a query is a sequence of steps     *)
(* (Begin, one RouteStep per level, Finish) that only write thread-local   *)
(* variables; the index itself is a constant of the execution.             *)
(*                                                                         *)
(* Readers r \in Reader run queries q \in Query against a two-level index  *)
(* over Keys (level 1: two segments, level 0: the keys).  All              *)
(* interleavings of their steps are explored.  With SharedMemo = TRUE the  *)
(* query caches its routing decision in a cell shared by all readers (a    *)
(* deliberately wrong variant): then both the frame condition and the      *)
(* result property fail, which shows the properties are sensitive.         *)
(***************************************************************************)
EXTENDS Naturals, Integers, Sequences, FiniteSets, TLC
CONSTANTS Reader, Keys, QueriesPerReader, SharedMemo
VARIABLES pc, cur, seg, res, left, memo, writes
vars == <<pc, cur, seg, res, left, memo, writes>>
\* the constant index: split point of the two upper segments, sorted keys
SortedKeys == LET RECURSIVE S(_) S(X) == IF X = {} THEN <<>> ELSE LET m == CHOOSE v \in X : \A w \in X : v <= w IN <<m>> \o S(X \ {m}) IN S(Keys)
Split == SortedKeys[(Len(SortedKeys) + 1) \div 2]
LowerBound(q) == Cardinality({k \in Keys : k < q})
QuerySpace == 0..(CHOOSE m \in Keys : \A k \in Keys : k <= m) + 1

Init == /\ pc = [r \in Reader |-> "idle"] /\ cur = [r \in Reader |-> 0] /\ seg = [r \in Reader |-> 0]
        /\ res = [r \in Reader |-> <<>>] /\ left = [r \in Reader |-> QueriesPerReader] /\ memo = <<0, 0>> /\ writes = 0
Begin(r, q) == /\ pc[r] = "idle" /\ left[r] > 0
               /\ pc' = [pc EXCEPT ![r] = "route"] /\ cur' = [cur EXCEPT ![r] = q] /\ left' = [left EXCEPT ![r] = @ - 1]
               /\ UNCHANGED <<seg, res, memo, writes>>
\* choose the upper-level segment; the wrong variant publishes it in the shared cell and reads it back later
RouteStep(r) == /\ pc[r] = "route"
                /\ LET s == IF cur[r] < Split THEN 1 ELSE 2 IN
                   IF SharedMemo THEN memo' = <<cur[r], s>> /\ writes' = writes + 1 /\ UNCHANGED seg
                   ELSE seg' = [seg EXCEPT ![r] = s] /\ UNCHANGED <<memo, writes>>
                /\ pc' = [pc EXCEPT ![r] = "finish"]
                /\ UNCHANGED <<cur, res, left>>
\* search inside the chosen segment's half of the keys
Finish(r) == /\ pc[r] = "finish"
             /\ LET s == IF SharedMemo THEN memo[2] ELSE seg[r]
                    half == IF s = 1 THEN {k \in Keys : k < Split} ELSE {k \in Keys : k >= Split}
                    base == IF s = 1 THEN 0 ELSE Cardinality({k \in Keys : k < Split})
                    ans == base + Cardinality({k \in half : k < cur[r]})
                IN res' = [res EXCEPT ![r] = Append(@, <<cur[r], ans>>)]
             /\ pc' = [pc EXCEPT ![r] = "idle"]
             /\ UNCHANGED <<cur, seg, left, memo, writes>>
Next == \E r \in Reader : (\E q \in QuerySpace : Begin(r, q)) \/ RouteStep(r) \/ Finish(r)
Spec == Init /\ [][Next]_vars
\* each call returns exactly what it returns when run alone
ResultsSequential == \A r \in Reader : \A i \in 1..Len(res[r]) : res[r][i][2] = LowerBound(res[r][i][1])
\* no reader step writes shared state (the frame condition behind race freedom)
NoSharedWrites == [][UNCHANGED <<memo, writes>>]_vars
WitnessOverlap == ~(\E a, b \in Reader : a # b /\ pc[a] = "finish" /\ pc[b] = "route")
=============================================================================
