----------------------------- MODULE StaticTrace -----------------------------
(***************************************************************************)
(* Trace specification binding the static index classes and the            *)
(* segmentation builder to PGMOps / Segmentation / PLAOps.                 *)
(* Reads the ndjson file named by the environment variable TRACE (written  *)
(* by harness/rec_static.cpp, rec_variants.cpp, rec_capi.cpp).             *)
(*                                                                         *)
(* Per execution: Reset (class, template parameters, normalisation),       *)
(* Build (data, level layout), SegCall* (points handed to the builder by   *)
(* each make_segmentation call, reported lines), Search* (query, returned  *)
(* range, per-level descent), End.                                         *)
(*                                                                         *)
(* Tier A: C01 C02 C03 C04 C07 (and C08 C09 C10 C18 for the other classes) *)
(* evaluated by TLC on what was logged; failures are printed as            *)
(* <<"TRACE-VIOLATION", prop, line, exec, what>>.                          *)
(* Tier B: the logged segments equal PGMOps!BuildIndexP(data,...) and the  *)
(* logged result is one the Predict/Cap/Widen formula allows (TRACE-DRIFT).*)
(***************************************************************************)
EXTENDS CompressedOps, Json, IOUtils

Trc == ndJsonDeserialize(IOEnv.TRACE)
NLines == Len(Trc)
MaxOraclePts == 26        \* segments longer than this are exempted from the O(p^3) feasibility oracle
MaxModelN == 48           \* tier B rebuilds the index in the model only for arrays up to this size

VARIABLES l, x, R, data, B, nviol, ndrift, cnt, done,
          segSeen      \* a SegCall line (hook H1) was seen since the last Build
vars == <<l, x, R, data, B, nviol, ndrift, cnt, done, segSeen>>

Ev == Trc[l]
IsEvent(e) == l <= NLines /\ Ev.e = e /\ l' = l + 1
Viol(prop, what) == PrintT(<<"TRACE-VIOLATION", prop, l, x, what>>)
RECURSIVE CountFailed(_,_)
CountFailed(checks, i) == IF i > Len(checks) THEN 0
                          ELSE (IF checks[i][1] THEN 0 ELSE (IF Viol(checks[i][2], checks[i][3]) THEN 1 ELSE 1))
                               + CountFailed(checks, i + 1)
ZeroCnt == [searches |-> 0, present |-> 0, builds |-> 0, segcalls |-> 0, oracle_segments |-> 0, oracle_skipped |-> 0,
            route_steps |-> 0, modelled_builds |-> 0, within_eps_points |-> 0,
            hook_silent |-> 0]   \* a hook that should have fired logged nothing: the driver reports a machinery failure, not a violation

TInit == l = 2 /\ x = -1 /\ R = [cls |-> "none"] /\ data = <<>> /\ B = [out |-> "none"] /\ nviol = 0 /\ ndrift = 0
         /\ cnt = ZeroCnt /\ done = FALSE /\ segSeen = TRUE

TReset == /\ IsEvent("Reset") /\ x' = Ev.x /\ R' = Ev /\ data' = <<>> /\ B' = [out |-> "none"] /\ segSeen' = TRUE
          /\ UNCHANGED <<nviol, ndrift, cnt, done>>

Offset == R.norm = "offset"
Sorted(a) == \A i \in 1..(Len(a) - 1) : a[i] <= a[i + 1]

(***************************************************************************)
(* Build                                                                   *)
(***************************************************************************)
\* tier B: the logged levels are the model's levels (keys, intercepts, slopes where the fraction was recovered)
SameLevel(logged, model) ==
  /\ Len(logged.keys) = Len(model.segs)
  /\ \A j \in 1..Len(model.segs) :
        /\ logged.keys[j] = model.segs[j].key
        /\ logged.ic[j] = model.segs[j].ic
        /\ (logged.sl[j][2] # 0 => logged.sl[j][1] * model.segs[j].dx = model.segs[j].dy * logged.sl[j][2])
SameIndexAs(Bd, m) == /\ Len(Bd.levels) = Len(m)
                      /\ \A i \in 1..Len(m) : SameLevel(Bd.levels[i], m[i])
SameIndex(Bd, a) == \E down \in BOOLEAN : SameIndexAs(Bd, BuildIndexP(a, R.eps, R.epsrec, R.sent, R.chunks, down))
Modelled(a) == Offset /\ R.cls = "PGMIndex" /\ Len(a) <= MaxModelN /\ R.sent <= 30000
\* tier B for the one-level CompressedPGMIndex: stored segment keys and decoded intercepts = CompressedOps!BuildCompP
\* (exact midpoint slopes; the float slope of the code can move a rounded intercept by one: drift, never an alarm)
\* (exact rationals in 32-bit integers: with keys spanning at most 20 and ranks below 50 every intermediate product stays below 2^31)
ModelledC(a) == Offset /\ R.cls = "Compressed" /\ R.chunks = 1 /\ Len(a) <= 40 /\ R.eps <= 8 /\ a[Len(a)] - a[1] <= 20 /\ R.sent <= 30000
SameCompressed(Bd, a) ==
  \E up \in BOOLEAN :
     IF R.epsrec = 0
     THEN LET m == BuildCompP(a, R.eps, 1, R.sent, up) IN
          Len(Bd.levels) = 1 /\ Bd.levels[1].keys = m.keys /\ Bd.levels[1].ic = m.ics
     ELSE LET m == BuildCompRecP(a, R.eps, R.epsrec, R.sent, up) IN          \* stored levels top-down, as the class keeps them
          /\ Len(Bd.levels) = Len(m.levels) /\ Bd.height = m.height
          /\ \A t \in 1..Len(m.levels) : Bd.levels[t].keys = m.levels[t].keys /\ Bd.levels[t].ic = m.levels[t].ics

TBuild ==
  /\ IsEvent("Build")
  /\ data' = Ev.data /\ B' = Ev
  /\ LET a == Ev.data
         okData == Len(a) >= 1 /\ Sorted(a) /\ a[Len(a)] < R.sent
     IN /\ nviol' = nviol + CountFailed(<<
              <<okData => Ev.out = "ok", "C20", "valid_data_rejected">>,
              <<(~okData /\ Len(a) >= 1 /\ Sorted(a)) => Ev.out # "ok", "C20", "reserved_key_indexed">>,
              <<(Ev.out = "ok" /\ R.cls = "PGMIndex") =>
                   (\A i \in 1..Len(Ev.levels) : Ev.levels[i].keys[Len(Ev.levels[i].keys)] = R.sent), "C17", "level_without_sentinel">> >>, 1)
        /\ IF Ev.out = "ok" /\ Modelled(a) /\ ~SameIndex(Ev, a)
           THEN PrintT(<<"TRACE-DRIFT", "C01", l, x, "segments_differ_from_model">>) /\ ndrift' = ndrift + 1
           ELSE IF Ev.out = "ok" /\ ModelledC(a) /\ ~SameCompressed(Ev, a)
           THEN PrintT(<<"TRACE-DRIFT", "C08", l, x, "compressed_level_differs_from_model">>) /\ ndrift' = ndrift + 1
           ELSE ndrift' = ndrift
        /\ cnt' = [cnt EXCEPT !.builds = @ + 1, !.modelled_builds = @ + (IF Ev.out = "ok" /\ (Modelled(a) \/ ModelledC(a)) THEN 1 ELSE 0)]
        /\ segSeen' = ~(Ev.out = "ok" /\ R.cls = "PGMIndex")
  /\ UNCHANGED <<x, R, done>>

(***************************************************************************)
(* SegCall: one make_segmentation_par / make_segmentation invocation       *)
(* (all its chunks, in chunk order)                                        *)
(***************************************************************************)
\* per chunk call: p = the points <<x, y>>, cu = cut positions (the first point and every point that was not accepted
\* by the segment under construction), in order
CallPts(c) == [i \in 1..Len(c.pts) |-> <<c.pts[i][1], c.pts[i][2]>>]
CallCuts(c) == SelectSeq([i \in 1..Len(c.pts) |-> i], LAMBDA i : i = 1 \/ c.pts[i][3] = 0)
Calls(E) == [j \in 1..Len(E.calls) |-> [p |-> CallPts(E.calls[j]), cu |-> CallCuts(E.calls[j])]]
SumLens(C, f(_)) == LET F[j \in 0..Len(C)] == IF j = 0 THEN 0 ELSE F[j - 1] + f(C[j]) IN F[Len(C)]
NSegsOfC(C) == LET f(c) == Len(c.cu) IN SumLens(C, f)

IncreasingPts(p) == \A i \in 1..(Len(p) - 1) : p[i][1] < p[i + 1][1] /\ p[i][2] < p[i + 1][2]
\* segment first keys are increasing in emission order (chunk order)
OrderedC(C) == /\ \A j \in 1..Len(C) : \A s \in 1..(Len(C[j].cu) - 1) : C[j].p[C[j].cu[s]][1] < C[j].p[C[j].cu[s + 1]][1]
               /\ \A j \in 1..(Len(C) - 1) : C[j].p[C[j].cu[Len(C[j].cu)]][1] < C[j + 1].p[1][1]
\* every distinct key of the array was fed at its first-occurrence rank (level 0 only)
FirstOccFedC(C, a) == LET P == UNION {Range(C[j].p) : j \in 1..Len(C)} IN
                      \A i \in 1..Len(a) : (i = 1 \/ a[i] # a[i - 1]) => <<a[i], i - 1>> \in P
\* the reported line of each segment is within eps + 1/2 of each of its points (direct calls, offset mode)
SegsBeforeC(C, j) == LET F[i \in 0..Len(C)] == IF i = 0 THEN 0 ELSE F[i - 1] + Len(C[i].cu) IN F[j - 1]
LastOf(c, s) == IF s = Len(c.cu) THEN Len(c.p) ELSE c.cu[s + 1] - 1
WithinEpsCallC(E, C, j) ==
  LET c == C[j] base == SegsBeforeC(C, j) IN
  \A s \in 1..Len(c.cu) :
     LET sg == E.segs[base + s]
         line == [key |-> sg[1], dy |-> sg[2], dx |-> sg[3], ic |-> sg[4]]
     IN /\ sg[1] = c.p[c.cu[s]][1]
        /\ (sg[3] # 0 => \A i \in c.cu[s]..LastOf(c, s) : WithinEpsHalf(line, c.p[i], E.eps))
HasLines(E) == Len(E.segs) > 0
WithinEpsAllC(E, C) == Len(E.segs) = NSegsOfC(C) /\ \A j \in 1..Len(C) : WithinEpsCallC(E, C, j)
\* maximality by the oracle, for segments short enough
MaximalCallC(c, eps) ==
  \A s \in 1..(Len(c.cu) - 1) : (c.cu[s + 1] - c.cu[s] + 1 <= MaxOraclePts) => ~Feasible(PtSet(c.p, c.cu[s], c.cu[s + 1]), eps)
OracleSegsC(C) == LET f(c) == Cardinality({s \in 1..(Len(c.cu) - 1) : c.cu[s + 1] - c.cu[s] + 1 <= MaxOraclePts}) IN SumLens(C, f)
\* accepted points really fit (each segment's own points are feasible), for segments short enough
FeasibleCallC(c, eps) ==
  \A s \in 1..Len(c.cu) : (LastOf(c, s) - c.cu[s] + 1 <= MaxOraclePts) => Feasible(PtSet(c.p, c.cu[s], LastOf(c, s)), eps)
StartsApartCallC(c, eps) == \A s \in 1..(Len(c.cu) - 1) : c.p[c.cu[s + 1]][2] - c.p[c.cu[s]][2] > 2 * eps
NChunksOf(E) == E.chunks
\* the points the sequential builder feeds for this array, by the specification's transcription
SeqOptimum(a, eps) == OracleGreedyCount(Pts(a), eps)
SmallForOptimum(E) == Offset /\ E.level0 = 1 /\ Len(data) <= 120 /\ E.eps <= 8

TSegCall ==
  /\ IsEvent("SegCall")
  /\ LET E == Ev
         C == Calls(E)
         nsegs == NSegsOfC(C)
         c == NChunksOf(E)
     IN /\ nviol' = nviol + CountFailed(<<
              <<\A j \in 1..Len(C) : IncreasingPts(C[j].p), "C03", "points_not_increasing">>,
              <<OrderedC(C), "C03", "segments_not_ordered">>,
              <<E.level0 = 1 => FirstOccFedC(C, data), "C03", "first_occurrence_not_fed">>,
              <<(HasLines(E) /\ Offset) => WithinEpsAllC(E, C), "C03", "point_farther_than_eps_from_reported_line">>,
              \* any key magnitude: res2[s] = <<floor(2 |line(x) - y|) at the segment's worst point, exact?, points>> (computed by the
              \* recorder in 128-bit integers from the canonical segment); within eps + 1/2 is decided here
              <<("res2" \in DOMAIN E) => /\ Len(E.res2) = nsegs
                                          /\ \A s \in 1..Len(E.res2) : \/ E.res2[s][1] < 2 * E.eps + 1
                                                                       \/ (E.res2[s][1] = 2 * E.eps + 1 /\ E.res2[s][2] = 1),
                "C03", "point_farther_than_eps_from_reported_line_wide">>,
              <<(Offset /\ E.level0 = 1) => \A j \in 1..Len(C) : FeasibleCallC(C[j], E.eps), "C03", "accepted_points_admit_no_line">>,
              <<(HasLines(E) /\ E.ret >= 0) => E.ret = nsegs /\ Len(E.segs) = nsegs, "C04", "returned_count_differs">>,
              <<(Offset /\ E.level0 = 1) => \A j \in 1..Len(C) : MaximalCallC(C[j], E.eps), "C04", "segment_not_maximal">>,
              <<\A j \in 1..Len(C) : StartsApartCallC(C[j], E.eps), "C04", "segment_starts_too_close">>,
              <<nsegs <= (E.n \div (2 * E.eps + 1)) + c + (IF E.level0 = 1 THEN 1 ELSE 0),
                IF E.level0 = 1 THEN "C04" ELSE "C07", "too_many_segments">>,
              <<SmallForOptimum(E) => (IF c = 1 THEN nsegs = SeqOptimum(data, E.eps) ELSE nsegs <= SeqOptimum(data, E.eps) + c - 1),
                "C04", "segment_count_not_minimal">>,
              <<(E.level0 = 1 /\ B.out = "ok" /\ R.cls = "PGMIndex" /\ E.src = "index") => B.nsegs <= nsegs + 1, "C04", "segments_count_mismatch">> >>, 1)
        /\ cnt' = [cnt EXCEPT !.segcalls = @ + 1, !.oracle_segments = @ + (IF Offset /\ E.level0 = 1 THEN OracleSegsC(C) ELSE 0),
                              !.within_eps_points = @ + (IF "res2" \in DOMAIN E THEN SumLens(E.res2, LAMBDA r : r[3]) ELSE 0)]
  /\ segSeen' = TRUE
  /\ UNCHANGED <<x, R, data, B, ndrift, done>>

(***************************************************************************)
(* Search                                                                  *)
(***************************************************************************)
n == Len(data)
\* std::lower_bound / upper_bound restricted to [lo, hi) (0-based), by bisection (the arrays are sorted)
RECURSIVE LBrec(_,_,_,_), UBrec(_,_,_,_)
LBrec(a, key, lo, hi) == IF lo >= hi THEN lo
                         ELSE LET mid == (lo + hi) \div 2 IN
                              IF a[mid + 1] < key THEN LBrec(a, key, mid + 1, hi) ELSE LBrec(a, key, lo, mid)
UBrec(a, key, lo, hi) == IF lo >= hi THEN lo
                         ELSE LET mid == (lo + hi) \div 2 IN
                              IF a[mid + 1] <= key THEN UBrec(a, key, mid + 1, hi) ELSE UBrec(a, key, lo, mid)
LBk(a, key) == LBrec(a, key, 0, Len(a))
LBink(a, key, lo, hi) == LBrec(a, key, lo, hi)
PresentK(a, key) == LET p == LBk(a, key) IN p < Len(a) /\ a[p + 1] = key
ShapeOK(S) == S.lo <= S.hi /\ S.hi <= n /\ S.hi - S.lo <= 2 * R.eps + 2 /\ S.lo <= S.pos
C01OK(S) == PresentK(data, S.q) => ((R.cls = "PGMIndex" => ShapeOK(S)) /\ S.lo <= LBk(data, S.q) /\ LBk(data, S.q) < S.hi)
C02OK(S) == S.lo <= S.hi /\ S.hi <= n /\ LBink(data, S.q, S.lo, S.hi) = LBk(data, S.q)
\* route entry: <<level, predicted, window lo, window hi (0: linear scan), chosen, level size>>
RouteOK(S, r) ==
  LET keys == B.levels[r[1] + 1].keys
      k == IF S.q < data[1] THEN data[1] ELSE S.q
      resp == UBrec(keys, k, 0, Len(keys) - 1) - 1
      e == R.epsrec
  IN /\ r[6] = Len(keys)
     /\ r[5] = resp
     /\ r[5] - r[2] <= e + 1 /\ r[2] - r[5] <= e + 1
     /\ r[3] + e + 1 >= r[2]
     /\ IF r[4] = 0 THEN r[5] >= r[3] /\ r[5] - r[3] + 1 <= 2 * e + 3
        ELSE r[3] <= r[5] /\ r[5] < r[4] /\ r[4] - r[3] <= 2 * e + 3 /\ r[4] <= Len(keys) - 1
C07OK(S) == \A i \in 1..Len(S.route) : RouteOK(S, S.route[i])
\* hook H2 logs one step per level below the top one
RouteLogged(S) == (R.cls = "PGMIndex" /\ R.epsrec > 0) => Len(S.route) = B.height - 1
\* tier B: the result follows Predict / Cap / Widen on the logged bottom level with an admissible rounding
SubEps(v, e) == IF v <= e THEN 0 ELSE v - e
AddEps(v, e, size) == IF v + e + 2 >= size THEN size ELSE v + e + 2
FormulaOK(S) ==
  LET L == B.levels[1]
      k == IF S.q < data[1] THEN data[1] ELSE S.q
      j == UBrec(L.keys, k, 0, Len(L.keys) - 1)
      num == L.sl[j][1] * (k - L.keys[j])
      g == num \div L.sl[j][2]
      cands == IF num % L.sl[j][2] = 0 /\ g >= 1 THEN {g - 1 + L.ic[j], g + L.ic[j]} ELSE {g + L.ic[j]}
      poss == {IF p < L.ic[j + 1] THEN p ELSE L.ic[j + 1] : p \in cands}
  IN j >= 1 /\ (L.sl[j][2] # 0 /\ S.q < 16000 =>
                  S.pos \in poss /\ S.lo = SubEps(S.pos, R.eps) /\ S.hi = AddEps(S.pos, R.eps, n))

\* the variants: same contract (without the statement about pos), plus what each class promises about its top structure
ShapeV(S) == S.lo <= S.hi /\ S.hi <= n /\ S.hi - S.lo <= 2 * R.eps + 2
KClamp(S) == IF S.q < data[1] THEN data[1] ELSE S.q
\* rightmost segment (0-based) starting at or before the key, among all entries but the sentinel
RespOf(skeys, key) == UBrec(skeys, key, 0, Len(skeys) - 1) - 1
BucketingOK(S) ==
  IF S.q < data[1] THEN S.pos = 0 /\ S.lo = 0 /\ S.hi = 0
  ELSE IF S.q > data[n] THEN S.pos = n /\ S.lo = n /\ S.hi = n
  ELSE LET resp == RespOf(B.skeys, S.q) IN
       /\ S.bk >= 0 /\ S.bk + 2 <= Len(B.top)
       /\ S.sl = <<B.top[S.bk + 1], B.top[S.bk + 2]>>
       /\ S.sl[1] - 1 <= resp /\ resp < S.sl[2]       \* the slice (or the segment just before it) holds the responsible segment
       /\ S.seg = resp
       /\ S.sl[2] <= Len(B.skeys)
EliasFanoOK(S) == LET resp == RespOf(B.skeys, KClamp(S)) IN
                  /\ S.pr[1] = resp /\ S.pr[2] = B.skeys[resp + 1]
VariantOK(S) == CASE R.cls = "Bucketing" -> BucketingOK(S)
                  [] R.cls = "EliasFano" -> EliasFanoOK(S)
                  [] OTHER -> TRUE

TSearch ==
  /\ IsEvent("Search")
  /\ LET S == Ev IN
     /\ nviol' = nviol + CountFailed(<<
            <<C01OK(S), IF R.cls = "PGMIndex" THEN "C01" ELSE R.prop, "first_occurrence_outside_range">>,
            <<C02OK(S), IF R.cls = "PGMIndex" THEN "C02" ELSE R.prop, "lower_bound_outside_range">>,
            <<R.cls # "PGMIndex" => ShapeV(S), IF R.cls = "PGMIndex" THEN "C01" ELSE R.prop, "range_shape">>,
            <<R.cls # "PGMIndex" => VariantOK(S), IF R.cls = "PGMIndex" THEN "C01" ELSE R.prop, "top_structure_selected_wrong_segment">>,
            <<R.cls = "PGMIndex" => C07OK(S), "C07", "descent_outside_window">> >>, 1)
     /\ IF Offset /\ R.cls = "PGMIndex" /\ B.out = "ok" /\ ~FormulaOK(S)
        THEN PrintT(<<"TRACE-DRIFT", "C01", l, x, "result_not_by_formula">>) /\ ndrift' = ndrift + 1
        ELSE ndrift' = ndrift
     /\ cnt' = [cnt EXCEPT !.searches = @ + 1, !.present = @ + (IF PresentK(data, S.q) THEN 1 ELSE 0),
                           !.route_steps = @ + Len(S.route), !.hook_silent = @ + (IF RouteLogged(S) THEN 0 ELSE 1)]
  /\ UNCHANGED <<x, R, data, B, done, segSeen>>

TEnd == /\ IsEvent("End") /\ cnt' = [cnt EXCEPT !.hook_silent = @ + (IF segSeen THEN 0 ELSE 1)]
        /\ UNCHANGED <<x, R, data, B, nviol, ndrift, done, segSeen>>

TDone == /\ l = NLines + 1 /\ ~done
         /\ PrintT(<<"TRACE-DONE", NLines, nviol, ndrift>>)
         /\ \A f \in DOMAIN cnt : PrintT(<<"TRACE-COUNT", f, cnt[f]>>)
         /\ done' = TRUE
         /\ UNCHANGED <<l, x, R, data, B, nviol, ndrift, cnt, segSeen>>

TNext == TReset \/ TBuild \/ TSegCall \/ TSearch \/ TEnd \/ TDone
TSpec == TInit /\ [][TNext]_vars
TraceAccepted == TLCGet("stats").diameter = NLines + 1
=============================================================================
