------------------------------- MODULE MdTrace -------------------------------
(***************************************************************************)
(* Trace specification for MultidimensionalPGMIndex (harness/rec_md.cpp).  *)
(* C13: iterating range(min, max) up to end() yields exactly the stored    *)
(*      points inside the box, with multiplicity, in increasing Morton     *)
(*      order (the Morton code is defined HERE by explicit bit             *)
(*      interleaving, dimension 1 in the least significant position), and  *)
(*      terminates.                                                        *)
(* C14: contains(p) <=> p is a stored point.                               *)
(* Tier B: the container's sorted codes are the specification's codes;     *)
(*      every logged jump goes to the specification's BigMin.              *)
(***************************************************************************)
EXTENDS Naturals, Integers, Sequences, SequencesExt, FiniteSets, TLC, Json, IOUtils

Trc == ndJsonDeserialize(IOEnv.TRACE)
NLines == Len(Trc)
VARIABLES l, x, R, sorted, pset, nviol, ndrift, cnt, done
vars == <<l, x, R, sorted, pset, nviol, ndrift, cnt, done>>
Ev == Trc[l]
IsEvent(e) == l <= NLines /\ Ev.e = e /\ l' = l + 1
Viol(prop, what) == PrintT(<<"TRACE-VIOLATION", prop, l, x, what>>)
RECURSIVE CountFailed(_,_)
CountFailed(checks, i) == IF i > Len(checks) THEN 0
                          ELSE (IF checks[i][1] THEN 0 ELSE (IF Viol(checks[i][2], checks[i][3]) THEN 1 ELSE 1))
                               + CountFailed(checks, i + 1)

RECURSIVE Pow2(_), Spread(_,_,_)
Pow2(e) == IF e = 0 THEN 1 ELSE 2 * Pow2(e - 1)
\* the bits of v placed at positions log2(w), log2(w) + D, log2(w) + 2D, ...
Spread(v, D, w) == IF v = 0 THEN 0 ELSE (v % 2) * w + Spread(v \div 2, D, w * Pow2(D))
Code(p) == LET D == Len(p) F[d \in 0..D] == IF d = 0 THEN 0 ELSE F[d - 1] + Spread(p[d], D, Pow2(d - 1)) IN F[D]
InBox(p, mn, mx) == \A d \in 1..Len(p) : mn[d] <= p[d] /\ p[d] <= mx[d]

TInit == l = 2 /\ x = -1 /\ R = [D |-> 0] /\ sorted = <<>> /\ pset = {} /\ nviol = 0 /\ ndrift = 0
         /\ cnt = [ranges |-> 0, points_returned |-> 0, jumps |-> 0, contains |-> 0, empty_boxes |-> 0] /\ done = FALSE
TReset == IsEvent("Reset") /\ x' = Ev.x /\ R' = Ev /\ sorted' = <<>> /\ pset' = {} /\ UNCHANGED <<nviol, ndrift, cnt, done>>

TPoints ==
  /\ IsEvent("Points")
  /\ sorted' = SortSeq(Ev.pts, LAMBDA a, b : Code(a) < Code(b))
  /\ pset' = {Ev.pts[i] : i \in 1..Len(Ev.pts)}
  /\ nviol' = nviol + CountFailed(<< <<Ev.out = "ok", "C20", "encodable_points_rejected">> >>, 1)
  /\ IF Ev.out = "ok" /\ Ev.codes # [i \in 1..Len(Ev.pts) |-> Code(sorted'[i])]
     THEN PrintT(<<"TRACE-DRIFT", "C13", l, x, "stored_codes_differ_from_specification_codes">>) /\ ndrift' = ndrift + 1
     ELSE ndrift' = ndrift
  /\ UNCHANGED <<x, R, cnt, done>>

\* smallest code greater than c whose point lies in the box (0 if none): the meaning of bigmin
BoxCodes(mn, mx) == LET D == Len(mn)
                        cells == IF D = 2 THEN {<<a, b>> : a \in mn[1]..mx[1], b \in mn[2]..mx[2]}
                                 ELSE IF D = 3 THEN {<<a, b, c>> : a \in mn[1]..mx[1], b \in mn[2]..mx[2], c \in mn[3]..mx[3]}
                                 ELSE {<<a, b, c, d>> : a \in mn[1]..mx[1], b \in mn[2]..mx[2], c \in mn[3]..mx[3], d \in mn[4]..mx[4]}
                    IN {Code(p) : p \in cells}
Volume(mn, mx) == LET F[d \in 0..Len(mn)] == IF d = 0 THEN 1 ELSE (IF F[d - 1] > 100000 THEN F[d - 1] ELSE F[d - 1] * (mx[d] - mn[d] + 1)) IN F[Len(mn)]
JumpsOK(E) == Len(E.jumps) = 0 \/
              LET bc == BoxCodes(E.min, E.max) IN
              \A i \in 1..Len(E.jumps) : LET j == E.jumps[i] above == {c \in bc : c > j[1]} IN
                  above # {} => j[2] = CHOOSE c \in above : \A d \in above : c <= d

TRange ==
  /\ IsEvent("Range")
  /\ LET expected == SelectSeq(sorted, LAMBDA p : InBox(p, Ev.min, Ev.max)) IN
     /\ nviol' = nviol + CountFailed(<<
            <<Ev.out = "ok", "C13", "range_threw">>,
            <<Ev.res = expected, "C13", "range_result_differs_from_points_in_box">> >>, 1)
     /\ IF Len(Ev.jumps) > 0 /\ Len(Ev.jumps) <= 4 /\ Volume(Ev.min, Ev.max) <= 2048 /\ ~JumpsOK(Ev)
        THEN PrintT(<<"TRACE-DRIFT", "C13", l, x, "jump_target_is_not_bigmin">>) /\ ndrift' = ndrift + 1
        ELSE ndrift' = ndrift
     /\ cnt' = [cnt EXCEPT !.ranges = @ + 1, !.points_returned = @ + Len(Ev.res), !.jumps = @ + Len(Ev.jumps),
                           !.empty_boxes = @ + (IF expected = <<>> THEN 1 ELSE 0)]
  /\ UNCHANGED <<x, R, sorted, pset, done>>

TContains ==
  /\ IsEvent("Contains")
  /\ nviol' = nviol + CountFailed(<<
         <<\A i \in 1..Len(Ev.rows) : (Ev.rows[i].r = 1) = (Ev.rows[i].p \in pset) /\ Ev.rows[i].r >= 0, "C14", "contains_is_not_membership">> >>, 1)
  /\ cnt' = [cnt EXCEPT !.contains = @ + Len(Ev.rows)]
  /\ UNCHANGED <<x, R, sorted, pset, ndrift, done>>

TEnd == IsEvent("End") /\ UNCHANGED <<x, R, sorted, pset, nviol, ndrift, cnt, done>>
TDone == /\ l = NLines + 1 /\ ~done /\ PrintT(<<"TRACE-DONE", NLines, nviol, ndrift>>)
         /\ \A f \in DOMAIN cnt : PrintT(<<"TRACE-COUNT", f, cnt[f]>>)
         /\ done' = TRUE /\ UNCHANGED <<l, x, R, sorted, pset, nviol, ndrift, cnt>>
TNext == TReset \/ TPoints \/ TRange \/ TContains \/ TEnd \/ TDone
TSpec == TInit /\ [][TNext]_vars
TraceAccepted == TLCGet("stats").diameter = NLines + 1
=============================================================================
