CONSTANTS Keys = {0,1,2}
 Reserved = 3
 ReservedVal = 9
 Vals = {1,2}
 MaxLen = 3
SPECIFICATION Spec
INVARIANTS NeverIndexed Total
PROPERTY RejectionsArePure
CHECK_DEADLOCK FALSE
