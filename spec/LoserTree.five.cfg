CONSTANTS NSrcs = {5}
 Keys = {0,1,2}
 MaxLen = 2
 TieBreak = "source"
SPECIFICATION FairSpec
INVARIANTS WinnerIsMin TournamentOK InBounds
PROPERTY Drained
CHECK_DEADLOCK FALSE
