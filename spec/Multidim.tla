------------------------------ MODULE Multidim ------------------------------
(***************************************************************************)
(* MultidimensionalPGMIndex (include/pgm/pgm_index_variants.hpp): points   *)
(* are stored as sorted Morton codes; range(min, max) walks the codes      *)
(* between zmin and zmax, tests each against the box (box_zcontains) and,  *)
(* after more than MissThreshold consecutive misses, jumps to bigmin, the  *)
(* smallest code inside the box greater than the current one               *)
(* (Tropf-Herzog, transcribed below bit by bit); contains(p) is a lower    *)
(* bound plus an equality test.                                            *)
(*                                                                         *)
(* D = 2 dimensions, B bits per coordinate.  The embedded static index is  *)
(* abstract (search + lower_bound = the global lower bound, C02).          *)
(* One action per step of the scan: Start, Hit, Miss, Jump, Exhausted.     *)
(***************************************************************************)
EXTENDS Naturals, Integers, Sequences, FiniteSets, TLC

CONSTANTS B,               \* bits per coordinate
          MaxPoints,       \* stored multisets have 1..MaxPoints points
          MissThreshold,   \* miss_threshold of the code (64 there)
          LandOn           \* "lower_bound" (intended) or "upper_bound" (the defect: resumes after codes equal to bigmin)

D == 2
RECURSIVE Pow2(_)
Pow2(e) == IF e = 0 THEN 1 ELSE 2 * Pow2(e - 1)
Side == Pow2(B)
NCodes == Side * Side
Bit(v, i) == (v \div Pow2(i)) % 2
RECURSIVE Spread(_,_,_), Gather(_,_,_)
Spread(v, i, d) == IF i = B THEN 0 ELSE Bit(v, i) * Pow2(i * D + d) + Spread(v, i + 1, d)
Gather(c, i, d) == IF i = B THEN 0 ELSE Bit(c, i * D + d) * Pow2(i) + Gather(c, i + 1, d)
Encode(p) == Spread(p[1], 0, 0) + Spread(p[2], 0, 1)           \* dimension 1 in the least significant position
Field(c, d) == Gather(c, 0, d)                                 \* coordinate d (0-based) of code c
Decode(c) == <<Field(c, 0), Field(c, 1)>>
\* box_zcontains: per dimension, on the masked fields
InBox(c, zmin, zmax) == \A d \in 0..(D - 1) : Field(zmin, d) <= Field(c, d) /\ Field(c, d) <= Field(zmax, d)

(***************************************************************************)
(* bigmin, transcribed                                                     *)
(***************************************************************************)
RECURSIVE HiBit(_)
HiBit(v) == IF v <= 1 THEN 0 ELSE 1 + HiBit(v \div 2)          \* sdsl::bits::hi (0 for 0)
Max2(a, b) == IF a > b THEN a ELSE b
\* load(target, pattern, bit_position, dimension): the low bit_position bits of the field become pattern
Load(target, pattern, bits, dim) ==
  LET f == Field(target, dim)
      nf == (f \div Pow2(bits)) * Pow2(bits) + pattern
      p == Decode(target)
  IN Encode(IF dim = 0 THEN <<nf, p[2]>> ELSE <<p[1], nf>>)
RECURSIVE BigMinLoop(_,_,_,_,_)
BigMinLoop(b, xd, zmin, zmax, bigmin) ==
  IF b < 0 THEN bigmin
  ELSE LET bits == b \div D + 1
           dim == b % D
           x == Bit(xd, b) mn == Bit(zmin, b) mx == Bit(zmax, b)
       IN IF x = 0 /\ mn = 0 /\ mx = 1
          THEN BigMinLoop(b - 1, xd, zmin, Load(zmax, Pow2(bits - 1) - 1, bits, dim), Load(zmin, Pow2(bits - 1), bits, dim))
          ELSE IF x = 0 /\ mn = 1 /\ mx = 1 THEN zmin
          ELSE IF x = 1 /\ mn = 0 /\ mx = 0 THEN bigmin
          ELSE IF x = 1 /\ mn = 0 /\ mx = 1 THEN BigMinLoop(b - 1, xd, Load(zmin, Pow2(bits - 1), bits, dim), zmax, bigmin)
          ELSE BigMinLoop(b - 1, xd, zmin, zmax, bigmin)
BigMin(xd, zmin, zmax) == BigMinLoop(Max2(Max2(HiBit(xd), HiBit(zmin)), HiBit(zmax)), xd, zmin, zmax, 0)
\* its meaning
BigMinOracle(xd, zmin, zmax) == LET S == {c \in 0..(NCodes - 1) : c > xd /\ InBox(c, zmin, zmax)} IN
                                IF S = {} THEN 0 - 1 ELSE CHOOSE c \in S : \A e \in S : c <= e

(***************************************************************************)
(* State machine of one range query                                        *)
(***************************************************************************)
VARIABLES data,    \* sorted sequence of stored codes (a multiset)
          zmin, zmax,
          it,      \* 0-based position in data; Len(data) = end()
          miss, out, pc, oob, jumps
vars == <<data, zmin, zmax, it, miss, out, pc, oob, jumps>>
n == Len(data)
LBd(c) == Cardinality({i \in 1..n : data[i] < c})
UBd(c) == Cardinality({i \in 1..n : data[i] <= c})

Init == /\ \E c \in 0..(NCodes - 1) : data = <<c>>
        /\ zmin = 0 /\ zmax = 0 /\ it = 0 /\ miss = 0 /\ out = <<>> /\ pc = "grow" /\ oob = FALSE /\ jumps = 0
Extend == /\ pc = "grow" /\ n < MaxPoints
          /\ \E c \in data[n]..(NCodes - 1) : data' = Append(data, c)
          /\ UNCHANGED <<zmin, zmax, it, miss, out, pc, oob, jumps>>
\* RangeIterator(super, min, max): lower_bound of zmin
Start == /\ pc = "grow"
         /\ \E a \in 0..(NCodes - 1), b \in 0..(NCodes - 1) :
               /\ \A d \in 0..(D - 1) : Field(a, d) <= Field(b, d)
               /\ zmin' = a /\ zmax' = b
               /\ it' = Cardinality({i \in 1..n : data[i] < a})
         /\ miss' = 0 /\ out' = <<>> /\ oob' = FALSE /\ jumps' = 0
         /\ pc' = "first"
         /\ UNCHANGED data
\* the rest of the constructor: at end -> done; inside the box -> the iterator designates it; else advance()
First == /\ pc = "first"
         /\ IF it = n THEN pc' = "done" /\ UNCHANGED <<it, out>>
            ELSE IF InBox(data[it + 1], zmin, zmax) THEN pc' = "at" /\ out' = Append(out, data[it + 1]) /\ UNCHANGED it
            ELSE pc' = "scan" /\ it' = it + 1 /\ UNCHANGED out
         /\ UNCHANGED <<data, zmin, zmax, miss, oob, jumps>>
\* operator++ from a designated element: advance() starts with ++it
Incr == /\ pc = "at" /\ it' = it + 1 /\ pc' = "scan"
        /\ UNCHANGED <<data, zmin, zmax, miss, out, oob, jumps>>
InLoop == it # n /\ data[it + 1] <= zmax
Hit == /\ pc = "scan" /\ InLoop /\ InBox(data[it + 1], zmin, zmax)
       /\ out' = Append(out, data[it + 1]) /\ pc' = "at"
       /\ UNCHANGED <<data, zmin, zmax, it, miss, oob, jumps>>
Miss == /\ pc = "scan" /\ InLoop /\ ~InBox(data[it + 1], zmin, zmax) /\ miss + 1 <= MissThreshold
        /\ miss' = miss + 1 /\ it' = it + 1
        /\ UNCHANGED <<data, zmin, zmax, out, pc, oob, jumps>>
Jump == /\ pc = "scan" /\ InLoop /\ ~InBox(data[it + 1], zmin, zmax) /\ miss + 1 > MissThreshold
        /\ miss' = 0 /\ jumps' = jumps + 1
        /\ LET bm == BigMin(data[it + 1], zmin, zmax)
               land == IF LandOn = "lower_bound" THEN LBd(bm) ELSE UBd(bm)     \* it = bound(bmin); --it; ... ++it
           IN /\ it' = land
              /\ oob' = (oob \/ land = 0 \/ bm # BigMinOracle(data[it + 1], zmin, zmax))   \* --it on begin(); bigmin wrong
        /\ UNCHANGED <<data, zmin, zmax, out, pc>>
Exhausted == /\ pc = "scan" /\ ~InLoop
             /\ it' = n /\ pc' = "done"
             /\ UNCHANGED <<data, zmin, zmax, miss, out, oob, jumps>>
Next == Extend \/ Start \/ First \/ Incr \/ Hit \/ Miss \/ Jump \/ Exhausted
Spec == Init /\ [][Next]_vars
FairSpec == Spec /\ WF_vars(First \/ Incr \/ Hit \/ Miss \/ Jump \/ Exhausted)

(***************************************************************************)
(* Properties                                                              *)
(***************************************************************************)
RECURSIVE Filter(_,_)
Filter(i, acc) == IF i > n THEN acc ELSE Filter(i + 1, IF InBox(data[i], zmin, zmax) THEN Append(acc, data[i]) ELSE acc)
Expected == Filter(1, <<>>)
\* C13: what has been produced is always a prefix of the points in the box (in code order, with multiplicity) ...
IsPrefix(s, t) == Len(s) <= Len(t) /\ \A i \in 1..Len(s) : s[i] = t[i]
C13Prefix == pc \in {"at", "scan", "done"} => IsPrefix(out, Expected)
\* ... and when the iterator reaches end() it is all of them
C13Complete == pc = "done" => out = Expected
\* the scan only moves forward and never reads data[end]
InBounds == ~oob /\ it <= n
\* every range query terminates (checked under FairSpec)
Terminates == (pc = "first") ~> (pc = "done")
\* C14: contains(p) = lower_bound + (it != end && decode(*it) = p)
ContainsImpl(c) == LET i == LBd(c) IN i # n /\ data[i + 1] = c
C14 == \A c \in 0..(NCodes - 1) : ContainsImpl(c) = (\E i \in 1..n : data[i] = c)
\* bigmin is what its name says, for every triple of the universe
BigMinOK == data = <<0>> =>        \* (a property of the constants: evaluated in one state only)
            \A x \in 0..(NCodes - 1) : \A a \in 0..(NCodes - 1) : \A b \in 0..(NCodes - 1) :
              ((\A d \in 0..(D - 1) : Field(a, d) <= Field(b, d)) /\ x < b /\ ~InBox(x, a, b) /\ x >= a)
                 => BigMin(x, a, b) = BigMinOracle(x, a, b)
OnlyGrow == pc = "grow"
WitnessJump == jumps = 0
WitnessJumpOntoStored == ~(pc = "scan" /\ jumps > 0 /\ it # n /\ it > 0 /\ InBox(data[it + 1], zmin, zmax) /\ miss = 0)
WitnessDuplicate == ~(pc = "done" /\ \E i \in 1..(Len(out) - 1) : out[i] = out[i + 1])
=============================================================================
