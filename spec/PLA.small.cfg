CONSTANTS XMax = 8
 YMax = 7
 Eps = 1
 MaxPts = 6
SPECIFICATION Spec
INVARIANTS DecisionOK RectOK ReportedLineOK HullInBounds
PROPERTY Maximal
CHECK_DEADLOCK FALSE
