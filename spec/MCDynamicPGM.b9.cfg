\* every history of at most 9 updates over 4 keys and 2 values, from the empty container
CONSTANTS Base = 2
 MinLevel = 1
 MinIndexLevel = 2
 MaxLvl = 5
 Keys = {0,1,2,3}
 Vals = {1,2}
 IdxEps = 1
 MaxOps = 9
 Bulks <- BulksEmpty
 MaxBulk = 0
 RecordHist = FALSE
SPECIFICATION Spec
INVARIANTS Refines C15 C05 C06 RangeIrrelevant NoTruncation
VIEW ViewBounded
CHECK_DEADLOCK FALSE
