\* every history of any length over 3 keys, one value (closed: the reachable layouts are finite)
CONSTANTS Base = 2
 MinLevel = 1
 MinIndexLevel = 2
 MaxLvl = 5
 Keys = {0,1,2,3}
 Vals = {1}
 IdxEps = 1
 MaxOps = 100000
 Bulks <- BulksEmpty
 MaxBulk = 0
 RecordHist = FALSE
SPECIFICATION Spec
INVARIANTS Refines C15 C05 C06 RangeIrrelevant NoTruncation
VIEW View
CHECK_DEADLOCK FALSE
