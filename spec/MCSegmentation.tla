--------------------------- MODULE MCSegmentation ---------------------------
(* All sorted arrays (duplicates allowed) of length 1..N over 0..U-1, built incrementally; for each array the *)
(* sequential and the chunked builds are computed and C03 / C04 are evaluated.                                *)
EXTENDS Segmentation
CONSTANTS U, N, Eps, MaxChunks, UseDP
VARIABLES data
Init == \E k \in 0..(U - 1) : data = <<k>>
Extend == /\ Len(data) < N
          /\ \E k \in data[Len(data)]..(U - 1) : data' = Append(data, k)
Spec == Init /\ [][Extend]_data

\* chunk counts that the code can be asked for on this array (the code needs chunk_size = n / c >= 1)
ChunkCounts == {c \in 1..MaxChunks : c = 1 \/ Len(data) \div c >= 1}
Opt == IF UseDP THEN OptCount(Pts(data), Eps) ELSE OracleGreedyCount(Pts(data), Eps)
C03Holds == \A c \in ChunkCounts : C03(data, Build(data, c, Eps), Eps)
C04Holds == LET opt == Opt IN \A c \in ChunkCounts : LET res == Build(data, c, Eps) IN
                /\ Maximal(res, Eps) /\ StartsApart(res, Eps) /\ CountBound(data, res, c, Eps)
                /\ CountMinimal(data, res, c, Eps, opt)
\* the two ways of counting the optimum agree (greedy by the oracle = dynamic programming over the oracle)
GreedyIsOptimal == OracleGreedyCount(Pts(data), Eps) = OptCount(Pts(data), Eps)
\* witnesses
WitnessTwoSegs == Len(AllSegs(Build(data, 1, Eps))) < 2
WitnessGuard == \A i \in 1..Len(Pts(data)) : \E j \in 1..Len(data) : Pts(data)[i][1] = data[j] \/ i = Len(Pts(data))
WitnessSkippedChunk == \A c \in ChunkCounts : Len(Build(data, c, Eps)) = c
=============================================================================
