----------------------------- MODULE Compressed -----------------------------
(***************************************************************************)
(* CompressedPGMIndex (include/pgm/pgm_index_variants.hpp) with exact      *)
(* rational geometry, one level (EpsilonRecursive = 0; the routing of the  *)
(* recursive variant is Variants.tla's routing lemma).                     *)
(*                                                                         *)
(* build:  first-level segmentation (Segmentation.tla; NChunks = 1 is what *)
(*         the repaired constructor does, NChunks > 1 what it did before   *)
(*         the repair of F16), then merge_slopes: the segments' slope      *)
(*         ranges [min, max] (the diagonals of the builder's rectangle;    *)
(*         [0, 1] for a one-point segment) are sorted and greedily         *)
(*         intersected, every group shares the midpoint of its             *)
(*         intersection, and a segment's intercept is recomputed through   *)
(*         the intersection point of its two extreme lines:                *)
(*         round(i_y - i_x * slope); then CompressedLevel: intercepts      *)
(*         clamped to [previous raw + 1, n - 1] and stored relative to the *)
(*         first one (strictly increasing positions of an Elias-Fano       *)
(*         coded bit vector), the extra segment (last + 1, n) when the     *)
(*         last shared slope is 0, the closing entry n + 1.                *)
(* search: clamp to the first key, rightmost segment <= key, slope *       *)
(*         (k - key) truncated (bounded nondeterminism for the float       *)
(*         product as in PGMIndex.tla) + intercept, never negative, capped *)
(*         by the next stored intercept, PGM_SUB_EPS / PGM_ADD_EPS.        *)
(* Properties: C08 (Shape, present keys strictly inside, lower bound       *)
(* inside), BuilderOK / ClampOK (preconditions of sd_vector_builder and    *)
(* std::clamp).  With NChunks = 1 they hold on every array of the small    *)
(* universe; with NChunks >= 2 TLC finds the chunk-seam defect F16.        *)
(***************************************************************************)
EXTENDS CompressedOps

CONSTANTS U, N, Eps, EpsRec, NChunks, Sentinel,
          MinBuildLen,   \* the index is built on arrays of at least this length (1 in exhaustive runs; larger in simulation)
          MaxStep        \* largest gap between consecutive keys (U in exhaustive runs)
VARIABLES data, idx, pc, q, res
vars == <<data, idx, pc, q, res>>
BuildIndex(a, up) == IF EpsRec = 0 THEN BuildCompP(a, Eps, NChunks, Sentinel, up)
                     ELSE BuildCompRecP(a, Eps, EpsRec, Sentinel, up)      \* (sequential first level only)

(***************************************************************************)
(* the machine                                                             *)
(***************************************************************************)
NoRes == [pos |-> 0, lo |-> 0, hi |-> 0, oob |-> FALSE]
Init == /\ \E x \in 0..(U - 1) : data = <<x>>
        /\ idx = <<>> /\ pc = "grow" /\ q = 0 /\ res = NoRes
Extend == /\ pc = "grow" /\ Len(data) < N
          /\ \E x \in data[Len(data)]..(IF data[Len(data)] + MaxStep < U - 1 THEN data[Len(data)] + MaxStep ELSE U - 1) : data' = Append(data, x)
          /\ UNCHANGED <<idx, pc, q, res>>
BuildIt == /\ pc = "grow" /\ Len(data) >= MinBuildLen /\ (\E up \in BOOLEAN : idx' = BuildIndex(data, up)) /\ pc' = "built" /\ UNCHANGED <<data, q, res>>
n == Len(data)
SubEps(x, e) == IF x <= e THEN 0 ELSE x - e
AddEps(x, e, size) == IF x + e + 2 >= size THEN size ELSE x + e + 2
\* values int64_t(slope * (k - key)) may take in floating point
ProdSet(s, d) == LET num == s[2] * d g == TDiv(num, s[1]) IN
                 IF num % s[1] = 0 /\ g >= 1 /\ ~IsDyadic(s[1]) THEN {g - 1, g} ELSE {g}
\* level(slopes_table, i, k): never negative
LevelAt(L, i, k, g) == LET p == g + L.ics[i] IN IF p > 0 THEN p ELSE 0
MinOf(a, b) == IF a < b THEN a ELSE b
Search(query) ==
  /\ pc = "built" /\ EpsRec = 0
  /\ LET k == IF query < data[1] THEN data[1] ELSE query
         i == Cardinality({j \in 1..idx.size : idx.keys[j] <= k})      \* 1-based index of the rightmost segment <= k
     IN \E g \in ProdSet(idx.slopes[i], k - idx.keys[i]) :
          LET pos == MinOf(LevelAt(idx, i, k, g), idx.ics[i + 1])
          IN res' = [pos |-> pos, lo |-> SubEps(pos, Eps), hi |-> AddEps(pos, Eps, n), oob |-> FALSE]
  /\ q' = query /\ pc' = "done" /\ UNCHANGED <<data, idx>>
\* the recursive search: root model, then per stored level (top-down) the window start and the forward scan
\* `for (; *std::next(lo) <= key; ++lo)` (with the UNclamped key, as the code has it), prediction, cap by the next intercept.
\* descend(t, pos): the set of final positions reachable from level t with predicted position pos (float products are sets);
\* oob: the scan read past the sentinel entry
RECURSIVE Descend(_, _, _, _)
Descend(t, pos, query, k) ==
  IF t > Len(idx.levels) THEN {<<pos, FALSE>>}
  ELSE LET L == idx.levels[t]
           wlo == SubEps(pos, EpsRec + 1)                                  \* 0-based
           cnt == Len(L.keys)                                             \* entries incl. sentinel
           C == {j \in wlo..(cnt - 2) : L.keys[j + 2] > query}            \* first j whose successor's key exceeds the key
       IN IF C = {} \/ wlo > cnt - 1 THEN {<<pos, TRUE>>}
          ELSE LET i == (CHOOSE j \in C : \A x \in C : j <= x) + 1       \* 1-based
               IN UNION {Descend(t + 1, MinOf(LevelAt(L, i, k, g), L.ics[i + 1]), query, k) :
                           g \in ProdSet(L.slopes[i], IF k >= L.keys[i] THEN k - L.keys[i] ELSE 0)}
SearchRec(query) ==
  /\ pc = "built" /\ EpsRec > 0
  /\ LET k == IF query < data[1] THEN data[1] ELSE query
         r == idx.root
     IN \E g \in ProdSet(<<r.dx, r.dy>>, k - data[1]) :
          LET p == g + r.ic
              pos0 == MinOf(IF p > 0 THEN p ELSE 0, idx.rootRange)
          IN \E f \in Descend(1, pos0, query, k) :
               res' = [pos |-> f[1], lo |-> SubEps(f[1], Eps), hi |-> AddEps(f[1], Eps, n), oob |-> f[2]]
  /\ q' = query /\ pc' = "done" /\ UNCHANGED <<data, idx>>
Next == Extend \/ BuildIt \/ (\E query \in (0 - 1)..(Sentinel - 1) : Search(query) \/ SearchRec(query))
Spec == Init /\ [][Next]_vars

(***************************************************************************)
(* properties                                                              *)
(***************************************************************************)
LB(a, key) == Cardinality({i \in 1..Len(a) : a[i] < key})
LBin(a, key, lo, hi) == lo + Cardinality({i \in (lo + 1)..hi : a[i] < key})
Present(a, key) == \E i \in 1..Len(a) : a[i] = key
Shape == pc = "done" => res.lo <= res.hi /\ res.hi <= n /\ res.hi - res.lo <= 2 * Eps + 2
C08Present == (pc = "done" /\ Present(data, q)) => res.lo <= LB(data, q) /\ LB(data, q) < res.hi
C08LowerBound == pc = "done" => LBin(data, q, res.lo, res.hi) = LB(data, q)
\* sd_vector_builder::set: strictly increasing positions inside the vector; std::clamp: lo <= hi
LevelBuilderOK(L) == /\ \A i \in 1..(Len(L.positions) - 1) : L.positions[i] < L.positions[i + 1]
                     /\ \A i \in 1..Len(L.positions) : L.positions[i] >= 0 /\ L.positions[i] < L.maxI
BuilderOK == idx # <<>> => IF EpsRec = 0 THEN LevelBuilderOK(idx) ELSE \A t \in 1..Len(idx.levels) : LevelBuilderOK(idx.levels[t])
\* the forward scan of every level stops at or before the sentinel entry (C17 for this class)
InBounds == pc = "done" => ~res.oob
ClampOK == idx # <<>> => idx.clampok
\* the lower clamp never binds (cf. CompIntercepts.tla, ClampLemma.tla): holds for NChunks = 1
NoUpwardShift == idx # <<>> => ~idx.upshift
\* vacuity guards (must be violated)
WitnessShared == (idx # <<>> /\ EpsRec = 0) => ~(\E i, j \in 1..Len(idx.raw) : i # j /\ idx.slopes[i] = idx.slopes[j])
WitnessTwoStoredLevels == (idx # <<>> /\ EpsRec > 0) => Len(idx.levels) < 2
WitnessOneStoredLevel == (idx # <<>> /\ EpsRec > 0) => Len(idx.levels) < 1
\* (the extra segment needs a last shared slope of exactly 0, which the closing point (last + 1, n) rules out in every
\* sequential build of the explored universes; it is reached in recordings only)
WitnessThreeSegments == (idx # <<>> /\ EpsRec = 0) => Len(idx.raw) < 3
=============================================================================
