----------------------------- MODULE RejectTrace -----------------------------
(***************************************************************************)
(* Trace specification for C20 (harness/rec_reject.cpp): each Try line     *)
(* carries the raw arguments of an attempt and the class of its outcome;   *)
(* the REQUIRED outcome is decided here from the arguments, following the  *)
(* Reject* / Accept* actions of Reject.tla.                                *)
(***************************************************************************)
EXTENDS Naturals, Integers, Sequences, FiniteSets, TLC, Json, IOUtils
Trc == ndJsonDeserialize(IOEnv.TRACE)
NLines == Len(Trc)
VARIABLES l, nviol, cnt, done
vars == <<l, nviol, cnt, done>>
Ev == Trc[l]
IsEvent(e) == l <= NLines /\ Ev.e = e /\ l' = l + 1
Viol(prop, what) == PrintT(<<"TRACE-VIOLATION", prop, l, Ev.x, what>>)

IsPow2(v) == v \in {2, 4, 8, 16, 32, 64, 128}
SortedSeq(s) == \A i \in 1..(Len(s) - 1) : s[i] <= s[i + 1]
FirstBad(xs) == LET S == {i \in 2..Len(xs) : xs[i] <= xs[i - 1]} IN IF S = {} THEN 0 ELSE CHOOSE i \in S : \A j \in S : i <= j

\* <<ok?, what>> for one attempt
Judge(E) ==
  CASE E.op = "build_static" ->
         <<E.out = (IF E.reserved_count > 0 THEN (IF E.cls = "CApi" THEN "null" ELSE "invalid_argument") ELSE "ok"),
           IF E.reserved_count > 0 THEN "reserved_key_indexed" ELSE "valid_data_rejected">>
    [] E.op = "dynamic_base" -> <<E.out = (IF IsPow2(E.base) THEN "ok" ELSE "invalid_argument"), "base_not_checked">>
    [] E.op = "dynamic_bulk" -> <<E.out = (IF SortedSeq(E.keys) THEN "ok" ELSE "invalid_argument"), "unsorted_bulk_load_not_rejected">>
    [] E.op = "dynamic_bulk_value" -> <<E.out = (IF E.reserved_at >= 0 THEN "invalid_argument" ELSE "ok"), "reserved_mapped_value_in_bulk_load_not_rejected">>
    [] E.op = "dynamic_put" -> <<IF E.reserved_value = 1 THEN E.out = "invalid_argument" /\ E.unchanged ELSE E.out = "ok",
                                 "reserved_mapped_value_not_rejected_or_container_changed">>
    [] E.op = "dynamic_range" -> <<E.out = (IF E.lo > E.hi THEN "invalid_argument" ELSE "ok"), "range_lo_gt_hi_not_rejected">>
    [] E.op = "md_build" -> <<(E.out = "ok") = (E.bits < E.fieldbits), "coordinate_too_wide_not_rejected">>
    [] E.op = "pla_epsilon" -> <<E.out = (IF E.eps < 0 THEN "invalid_argument" ELSE "ok"), "negative_epsilon_not_rejected">>
    [] E.op = "pla_add_point" -> <<IF FirstBad(E.xs) = 0 THEN E.out = "ok" ELSE E.out = "logic_error" /\ E.failed_at = FirstBad(E.xs) - 1,
                                   "non_increasing_key_not_rejected">>
    [] OTHER -> <<FALSE, "unknown_attempt">>

TInit == l = 2 /\ nviol = 0 /\ cnt = [attempts |-> 0, must_reject |-> 0] /\ done = FALSE
TTry == /\ IsEvent("Try")
        /\ LET j == Judge(Ev) IN
           /\ nviol' = nviol + (IF j[1] THEN 0 ELSE (IF Viol("C20", j[2]) THEN 1 ELSE 1))
           /\ cnt' = [cnt EXCEPT !.attempts = @ + 1, !.must_reject = @ + (IF Ev.out # "ok" THEN 1 ELSE 0)]
        /\ UNCHANGED done
TEnd == IsEvent("End") /\ UNCHANGED <<nviol, cnt, done>>
TDone == /\ l = NLines + 1 /\ ~done /\ PrintT(<<"TRACE-DONE", NLines, nviol, 0>>)
         /\ \A f \in DOMAIN cnt : PrintT(<<"TRACE-COUNT", f, cnt[f]>>)
         /\ done' = TRUE /\ UNCHANGED <<l, nviol, cnt>>
TNext == TTry \/ TEnd \/ TDone
TSpec == TInit /\ [][TNext]_vars
TraceAccepted == TLCGet("stats").diameter = NLines + 1
=============================================================================
