------------------------------ MODULE LifeTrace ------------------------------
(***************************************************************************)
(* Trace specification for C19 (harness/rec_lifecycle.cpp).  The abstract  *)
(* state of Lifecycle.tla (st, val) is advanced by the logged operations;  *)
(* after every operation the answer class of every live object must be     *)
(* the class of the value it holds: a copy / move target answers like its  *)
(* source did at that moment and keeps doing so after the source has been  *)
(* destroyed, moved from, assigned to or updated.  A recording that ends   *)
(* in a Crash line (AddressSanitizer abort: use of freed storage) has no   *)
(* matching action and is rejected.                                        *)
(***************************************************************************)
EXTENDS Naturals, Integers, Sequences, FiniteSets, TLC, Json, IOUtils
Trc == ndJsonDeserialize(IOEnv.TRACE)
NLines == Len(Trc)
Obj == {1, 2, 3}
VARIABLES l, x, st, val, clsOf, nviol, cnt, done
vars == <<l, x, st, val, clsOf, nviol, cnt, done>>
Ev == Trc[l]
IsEvent(e) == l <= NLines /\ Ev.e = e /\ l' = l + 1
Viol(prop, what) == PrintT(<<"TRACE-VIOLATION", prop, l, x, what>>)

TInit == l = 2 /\ x = -1 /\ st = [o \in Obj |-> "none"] /\ val = [o \in Obj |-> 0] /\ clsOf = <<>> /\ nviol = 0
         /\ cnt = [ops |-> 0, snapshots |-> 0, copies |-> 0, moves |-> 0, destroys |-> 0, mutations |-> 0] /\ done = FALSE
TReset == /\ IsEvent("Reset") /\ x' = Ev.x /\ st' = [o \in Obj |-> "none"] /\ val' = [o \in Obj |-> 0] /\ clsOf' = <<>>
          /\ UNCHANGED <<nviol, cnt, done>>
TOp == /\ IsEvent("Op")
       /\ LET o == Ev.o s == Ev.s IN
          IF Ev.done = 0 THEN UNCHANGED <<st, val>>
          ELSE CASE Ev.op = "Construct" -> st' = [st EXCEPT ![o] = "live"] /\ val' = [val EXCEPT ![o] = Ev.v]
                 [] Ev.op \in {"CopyConstruct", "CopyAssign"} -> st' = [st EXCEPT ![o] = "live"] /\ val' = [val EXCEPT ![o] = val[s]]
                 [] Ev.op \in {"MoveConstruct", "MoveAssign"} -> st' = [st EXCEPT ![o] = "live", ![s] = "moved"] /\ val' = [val EXCEPT ![o] = val[s]]
                 [] Ev.op = "Destroy" -> st' = [st EXCEPT ![o] = "none"] /\ UNCHANGED val
                 [] Ev.op = "Mutate" -> val' = [val EXCEPT ![o] = Ev.v] /\ UNCHANGED st
                 [] OTHER -> UNCHANGED <<st, val>>
       /\ cnt' = [cnt EXCEPT !.ops = @ + 1,
                             !.copies = @ + (IF Ev.done = 1 /\ Ev.op \in {"CopyConstruct", "CopyAssign"} THEN 1 ELSE 0),
                             !.moves = @ + (IF Ev.done = 1 /\ Ev.op \in {"MoveConstruct", "MoveAssign"} THEN 1 ELSE 0),
                             !.destroys = @ + (IF Ev.op = "Destroy" THEN 1 ELSE 0),
                             !.mutations = @ + (IF Ev.op = "Mutate" THEN 1 ELSE 0)]
       /\ UNCHANGED <<x, clsOf, nviol, done>>
\* clsOf: sequence of <<value, class>> learned at the first observation of a value
Known(v) == \E i \in 1..Len(clsOf) : clsOf[i][1] = v
ClassOf(v) == clsOf[CHOOSE i \in 1..Len(clsOf) : clsOf[i][1] = v][2]
RECURSIVE Learn(_,_,_)
Learn(objs, i, acc) == IF i > Len(objs) THEN acc
                       ELSE LET v == val[objs[i][1]] IN
                            Learn(objs, i + 1, IF \E j \in 1..Len(acc) : acc[j][1] = v THEN acc ELSE Append(acc, <<v, objs[i][2]>>))
TSnap == /\ IsEvent("Snap")
         /\ LET objs == Ev.objs
                liveOK == {objs[i][1] : i \in 1..Len(objs)} = {o \in Obj : st[o] = "live"}
                learned == Learn(objs, 1, clsOf)
                answersOK == \A i \in 1..Len(objs) : LET v == val[objs[i][1]] IN
                                 objs[i][2] = learned[CHOOSE j \in 1..Len(learned) : learned[j][1] = v][2]
            IN /\ clsOf' = learned
               /\ nviol' = nviol + (IF liveOK THEN 0 ELSE (IF Viol("C19", "recorder_and_model_disagree_on_live_objects") THEN 1 ELSE 1))
                                 + (IF answersOK THEN 0 ELSE (IF Viol("C19", "object_does_not_answer_like_its_value") THEN 1 ELSE 1))
         /\ cnt' = [cnt EXCEPT !.snapshots = @ + 1]
         /\ UNCHANGED <<x, st, val, done>>
TEnd == IsEvent("End") /\ UNCHANGED <<x, st, val, clsOf, nviol, cnt, done>>
TDone == /\ l = NLines + 1 /\ ~done /\ PrintT(<<"TRACE-DONE", NLines, nviol, 0>>)
         /\ \A f \in DOMAIN cnt : PrintT(<<"TRACE-COUNT", f, cnt[f]>>)
         /\ done' = TRUE /\ UNCHANGED <<l, x, st, val, clsOf, nviol, cnt>>
TNext == TReset \/ TOp \/ TSnap \/ TEnd \/ TDone
TSpec == TInit /\ [][TNext]_vars
TraceAccepted == TLCGet("stats").diameter = NLines + 1
=============================================================================
