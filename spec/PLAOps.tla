------------------------------ MODULE PLAOps ------------------------------
(***************************************************************************)
(* Constant-level operators shared by PLA, Segmentation, PGMIndex and the  *)
(* trace specifications.                                                   *)
(*                                                                         *)
(*  - AddPoint / SegOf: transcription of OptimalPiecewiseLinearModel::     *)
(*    add_point and get_segment + get_floating_point_segment (integer      *)
(*    keys) from include/pgm/piecewise_linear_model.hpp.  The builder      *)
(*    state is a record m = [upper, lower, us, ls, rect, nin, firstX].     *)
(*  - Feasible & friends: an ORACLE that does not share anything with the  *)
(*    hull machine: a set of points admits a line within eps of all of     *)
(*    them (band clamped at rank 0) iff some line through two band corners *)
(*    with distinct abscissae stays inside every band.  All arithmetic is  *)
(*    integer cross-multiplication.                                        *)
(*  Points are <<x, y>>; sequences of points are strictly increasing in x. *)
(***************************************************************************)
EXTENDS Naturals, Integers, Sequences, FiniteSets

Sub(a, b) == <<a[1] - b[1], a[2] - b[2]>>
\* comparison of slopes given as <<dx, dy>> with dx of the same sign (Slope::operator< / operator>)
SLT(s, t) == s[2] * t[1] < s[1] * t[2]
SGT(s, t) == s[2] * t[1] > s[1] * t[2]
SEQ(s, t) == s[2] * t[1] = s[1] * t[2]
Cross(O, A, B) == LET OA == Sub(A, O) OB == Sub(B, O) IN OA[1] * OB[2] - OA[2] * OB[1]
Lo(y, eps) == IF y <= eps THEN 0 ELSE y - eps        \* p2.y : band clamped at rank 0 (Y = size_t)
Hi(y, eps) == y + eps                                \* p1.y (no clamp below SIZE_MAX in any modelled universe)
\* C++ integer division truncates toward zero
Abs(a) == IF a < 0 THEN -a ELSE a
TDiv(a, b) == IF (a < 0) = (b < 0) THEN Abs(a) \div Abs(b) ELSE -(Abs(a) \div Abs(b))

(***************************************************************************)
(* The hull machine                                                        *)
(***************************************************************************)
RECURSIVE FindMin(_,_,_,_,_), FindMax(_,_,_,_,_), PopU(_,_,_,_), PopL(_,_,_,_)
\* "Find extreme slope" scans: stop at the first hull point whose slope to p is on the wrong side
FindMin(h, i, mn, mi, p) == IF i > Len(h) THEN mi
                            ELSE LET v == Sub(h[i], p) IN IF SGT(v, mn) THEN mi ELSE FindMin(h, i + 1, v, i, p)
FindMax(h, i, mx, mi, p) == IF i > Len(h) THEN mi
                            ELSE LET v == Sub(h[i], p) IN IF SLT(v, mx) THEN mi ELSE FindMax(h, i + 1, v, i, p)
\* "Hull update": e is the number of hull points kept (1-based index of the last kept point), s the hull's start index
PopU(h, s, e, p) == IF e >= s + 1 /\ Cross(h[e - 1], h[e], p) <= 0 THEN PopU(h, s, e - 1, p) ELSE e
PopL(h, s, e, p) == IF e >= s + 1 /\ Cross(h[e - 1], h[e], p) >= 0 THEN PopL(h, s, e - 1, p) ELSE e

Z == <<0, 0>>
Fresh == [upper |-> <<>>, lower |-> <<>>, us |-> 1, ls |-> 1, rect |-> <<Z, Z, Z, Z>>, nin |-> 0, firstX |-> 0]
StartWith(pt, eps) == LET p1 == <<pt[1], Hi(pt[2], eps)>> p2 == <<pt[1], Lo(pt[2], eps)>> IN
   [upper |-> <<p1>>, lower |-> <<p2>>, us |-> 1, ls |-> 1, rect |-> <<p1, p2, Z, Z>>, nin |-> 1, firstX |-> pt[1]]

\* the decision of add_point on a builder holding >= 2 points
Rejects(m, pt, eps) ==
  LET p1 == <<pt[1], Hi(pt[2], eps)>> p2 == <<pt[1], Lo(pt[2], eps)>>
      slope1 == Sub(m.rect[3], m.rect[1])
      slope2 == Sub(m.rect[4], m.rect[2])
  IN SLT(Sub(p1, m.rect[3]), slope1) \/ SGT(Sub(p2, m.rect[4]), slope2)

\* add_point: <<accepted, new state>>; on rejection the state is returned unchanged (points_in_hull := 0 is
\* represented by the caller restarting with StartWith)
AddPoint(m, pt, eps) ==
  LET p1 == <<pt[1], Hi(pt[2], eps)>> p2 == <<pt[1], Lo(pt[2], eps)>> IN
  IF m.nin = 0 THEN <<TRUE, StartWith(pt, eps)>>
  ELSE IF m.nin = 1 THEN <<TRUE, [m EXCEPT !.rect = <<m.rect[1], m.rect[2], p2, p1>>, !.upper = Append(m.upper, p1),
                                          !.lower = Append(m.lower, p2), !.nin = 2]>>
  ELSE IF Rejects(m, pt, eps) THEN <<FALSE, m>>
  ELSE LET rect == m.rect
           slope1 == Sub(rect[3], rect[1])
           slope2 == Sub(rect[4], rect[2])
           updU == SLT(Sub(p1, rect[2]), slope2)
           mi   == FindMin(m.lower, m.ls + 1, Sub(m.lower[m.ls], p1), m.ls, p1)
           r1   == IF updU THEN <<rect[1], m.lower[mi], rect[3], p1>> ELSE rect
           ls1  == IF updU THEN mi ELSE m.ls
           eU   == PopU(m.upper, m.us, Len(m.upper), p1)
           up1  == IF updU THEN Append(SubSeq(m.upper, 1, eU), p1) ELSE m.upper
           updL == SGT(Sub(p2, r1[1]), slope1)
           mx   == FindMax(up1, m.us + 1, Sub(up1[m.us], p2), m.us, p2)
           r2   == IF updL THEN <<up1[mx], r1[2], p2, r1[4]>> ELSE r1
           us1  == IF updL THEN mx ELSE m.us
           eL   == PopL(m.lower, ls1, Len(m.lower), p2)
           lo1  == IF updL THEN Append(SubSeq(m.lower, 1, eL), p2) ELSE m.lower
       IN <<TRUE, [m EXCEPT !.rect = r2, !.upper = up1, !.lower = lo1, !.us = us1, !.ls = ls1, !.nin = m.nin + 1]>>

\* get_segment() + get_floating_point_segment(first_x) for integer keys:
\* [key, dx, dy, ic] with slope dy/dx (dx > 0), intercept rounded half away from zero; one point: slope 0
SegOf(m) ==
  IF m.nin = 1 THEN [key |-> m.firstX, dx |-> 1, dy |-> 0, ic |-> (m.rect[1][2] + m.rect[2][2]) \div 2]
  ELSE LET s == Sub(m.rect[4], m.rect[2])
           inum == s[2] * (m.firstX - m.rect[2][1])
           iden == s[1]
           rt == (IF (inum < 0) # (iden < 0) THEN -1 ELSE 1) * TDiv(iden, 2)
       IN [key |-> m.firstX, dx |-> s[1], dy |-> s[2], ic |-> TDiv(inum + rt, iden) + m.rect[2][2]]

(***************************************************************************)
(* Greedy segmentation of a point sequence by the hull machine:            *)
(* <<segments, cut positions>> where cut positions are the indices of the  *)
(* points that started a new segment (the first one included).             *)
(***************************************************************************)
RECURSIVE SegmRec(_,_,_,_,_,_)
SegmRec(pts, i, m, eps, segs, cuts) ==
  IF i > Len(pts) THEN <<Append(segs, SegOf(m)), cuts>>
  ELSE LET r == AddPoint(m, pts[i], eps) IN
       IF r[1] THEN SegmRec(pts, i + 1, r[2], eps, segs, IF m.nin = 0 THEN Append(cuts, i) ELSE cuts)
       ELSE SegmRec(pts, i + 1, StartWith(pts[i], eps), eps, Append(segs, SegOf(m)), Append(cuts, i))
Segm(pts, eps) == SegmRec(pts, 1, Fresh, eps, <<>>, <<>>)

(***************************************************************************)
(* The oracle                                                              *)
(***************************************************************************)
Corners(P, eps) == UNION {{<<p[1], Lo(p[2], eps)>>, <<p[1], Hi(p[2], eps)>>} : p \in P}
LineOK(A, B, P, eps) == LET dx == B[1] - A[1] dy == B[2] - A[2] IN
     \A p \in P : LET v == A[2] * dx + dy * (p[1] - A[1]) IN Lo(p[2], eps) * dx <= v /\ v <= Hi(p[2], eps) * dx
FeasLines(P, eps) == {L \in Corners(P, eps) \X Corners(P, eps) : L[1][1] < L[2][1] /\ LineOK(L[1], L[2], P, eps)}
Feasible(P, eps) == Cardinality(P) <= 1 \/ \E A \in Corners(P, eps) : \E B \in Corners(P, eps) : A[1] < B[1] /\ LineOK(A, B, P, eps)
SlopeOf(L) == Sub(L[2], L[1])
IsMinSlope(s, P, eps) == /\ \E L \in FeasLines(P, eps) : SEQ(SlopeOf(L), s)
                         /\ \A L \in FeasLines(P, eps) : ~SLT(SlopeOf(L), s)
IsMaxSlope(s, P, eps) == /\ \E L \in FeasLines(P, eps) : SEQ(SlopeOf(L), s)
                         /\ \A L \in FeasLines(P, eps) : ~SGT(SlopeOf(L), s)

Range(s) == {s[i] : i \in 1..Len(s)}
PtSet(pts, a, b) == {pts[i] : i \in a..b}

\* minimal number of segments by dynamic programming over the oracle (independent of greedy and of the hull machine)
RECURSIVE OptUpTo(_,_,_)
OptUpTo(pts, i, eps) ==     \* minimal number of feasible consecutive groups covering pts[1..i]
  IF i = 0 THEN 0
  ELSE LET cands == {j \in 0..(i - 1) : Feasible(PtSet(pts, j + 1, i), eps)}
           vals == {OptUpTo(pts, j, eps) + 1 : j \in cands}
       IN CHOOSE v \in vals : \A w \in vals : v <= w
OptCount(pts, eps) == OptUpTo(pts, Len(pts), eps)

\* the same number by greedy extension decided by the oracle (feasibility is hereditary, so greedy is optimal);
\* used on recorded executions where the DP would be too slow
RECURSIVE OracleGreedy(_,_,_,_,_)
OracleGreedy(pts, i, start, eps, cnt) ==
  IF i > Len(pts) THEN cnt
  ELSE IF Feasible(PtSet(pts, start, i), eps) THEN OracleGreedy(pts, i + 1, start, eps, cnt)
  ELSE OracleGreedy(pts, i + 1, i, eps, cnt + 1)
OracleGreedyCount(pts, eps) == IF pts = <<>> THEN 0 ELSE OracleGreedy(pts, 1, 1, eps, 1)

\* |line(x) - y| <= eps + 1/2 for the reported line  y = (dy/dx) * (x - key) + ic, in integers
WithinEpsHalf(seg, pt, eps) ==
  LET num == seg.dy * (pt[1] - seg.key) + (seg.ic - pt[2]) * seg.dx IN 2 * Abs(num) <= (2 * eps + 1) * seg.dx
=============================================================================
