----------------------------- MODULE LoserTrace -----------------------------
(***************************************************************************)
(* Trace specification for harness/rec_loser.cpp: the real                 *)
(* pgm::internal::LoserTree is driven the way DynamicPGMIndex::Iterator    *)
(* drives it (construct, insert_start for every cursor, init, then         *)
(* min_source / delete_min_insert until every cursor is exhausted); every  *)
(* min_source() it returns is logged.  LBuild / LPop lines are consumed by *)
(* the construction operators and the Pop action of LoserTree.tla itself.  *)
(* Tier A (C06): the source returned holds a smallest head key (no merge    *)
(* that yields keys in order can do otherwise).  Tier B: it is the         *)
(* smallest index among the sources with that key (the convention by which *)
(* the most recent level wins; another consistent convention would not     *)
(* break C06, which the container-level traces decide) and the private     *)
(* array, logged through hook H5 after every call, equals the model's      *)
(* `losers` cell by cell.                                                  *)
(***************************************************************************)
EXTENDS Naturals, Integers, Sequences, FiniteSets, TLC, Json, IOUtils
Trc == ndJsonDeserialize(IOEnv.TRACE)
NLines == Len(Trc)
VARIABLES l, x, n, seqs, pos, k, losers, phase, nextIns, insync, nviol, ndrift, cnt, done
vars == <<l, x, n, seqs, pos, k, losers, phase, nextIns, insync, nviol, ndrift, cnt, done>>
LT == INSTANCE LoserTree WITH NSrcs <- {1}, Keys <- {0}, MaxLen <- 1, TieBreak <- "source"
Ev == Trc[l]
IsEvent(e) == l <= NLines /\ Ev.e = e /\ l' = l + 1
Viol(prop, what) == PrintT(<<"TRACE-VIOLATION", prop, l, x, what>>)
Drift(what) == PrintT(<<"TRACE-DRIFT", l, x, what>>)
V(ok, prop, what) == IF ok THEN 0 ELSE (IF Viol(prop, what) THEN 1 ELSE 1)
D(ok, what) == IF ok THEN 0 ELSE (IF Drift(what) THEN 1 ELSE 1)

CellsOf(L, kk) == [i \in 1..(2 * kk) |-> <<L[i - 1].key, L[i - 1].source>>]
\* the head key of source s is minimal among the live sources (in the state the operators are evaluated in)
HeadIsMin(src) == src \in LT!Live /\ \A t \in LT!Live : LT!HeadOf(src) <= LT!HeadOf(t)
\* the same in the successor state, for the source named by the CURRENT line (a bound variable is not primed, `Ev` would be)
HeadIsMinNext(e) == \E m \in {e.min} : HeadIsMin(m)'
TInit == /\ l = 2 /\ x = -1 /\ n = 1 /\ seqs = [s \in {0} |-> <<0>>] /\ pos = [s \in {0} |-> 2] /\ k = 1
         /\ losers = [i \in 0..1 |-> [key |-> 0, source |-> 0]] /\ phase = "ready" /\ nextIns = 1 /\ insync = FALSE
         /\ nviol = 0 /\ ndrift = 0 /\ cnt = [trees |-> 0, pops |-> 0, ties |-> 0, sources_max |-> 0] /\ done = FALSE
TReset == IsEvent("Reset") /\ x' = Ev.x /\ UNCHANGED <<n, seqs, pos, k, losers, phase, nextIns, insync, nviol, ndrift, cnt, done>>
RECURSIVE InsAll(_, _, _, _)
InsAll(L, kk, s, sq) == IF s >= Len(sq) THEN L ELSE InsAll(LT!InsertStart(L, kk, s, sq[s + 1][1]), kk, s + 1, sq)
\* LoserTree(n); insert_start(0..n-1); init(); min_source()
TBuild ==
  /\ IsEvent("LBuild")
  /\ n' = Ev.n /\ seqs' = [s \in 0..(Ev.n - 1) |-> Ev.seqs[s + 1]] /\ pos' = [s \in 0..(Ev.n - 1) |-> 1]
  /\ k' = LT!NextPow2(Ev.n) /\ phase' = "ready" /\ nextIns' = Ev.n
  /\ losers' = LT!InitTree(InsAll(LT!Constructed(Ev.n), LT!NextPow2(Ev.n), 0, Ev.seqs), LT!NextPow2(Ev.n))
  /\ insync' = (Ev.min = losers'[0].source)
  /\ nviol' = nviol + V(HeadIsMinNext(Ev), "C06", "loser_tree_first_min_source_does_not_hold_a_smallest_head")
  /\ ndrift' = ndrift + D(Ev.min = LT!MinSrc' /\ Ev.min = losers'[0].source /\ Ev.cells = CellsOf(losers', k'), "array_or_tie_break_after_init_differs_from_the_model")
  /\ cnt' = [cnt EXCEPT !.trees = @ + 1, !.sources_max = IF Ev.n > @ THEN Ev.n ELSE @]
  /\ UNCHANGED <<x, done>>
\* delete_min_insert(next key of the popped source or nullptr); min_source() unless everything is exhausted (min = -1)
TPop ==
  /\ IsEvent("LPop")
  /\ IF insync /\ LT!Live # {}
     THEN /\ LT!Pop
          /\ LET exhausted == LT!Live' = {} IN
             /\ nviol' = nviol + V((exhausted => Ev.min = -1) /\ (~exhausted => HeadIsMinNext(Ev)),
                                   "C06", "loser_tree_min_source_does_not_hold_a_smallest_head")
             /\ ndrift' = ndrift + D(Ev.src = losers[0].source /\ (exhausted \/ (Ev.min = LT!MinSrc' /\ Ev.min = losers'[0].source)) /\ Ev.cells = CellsOf(losers', k),
                                     "array_or_tie_break_after_delete_min_insert_differs_from_the_model")
             /\ insync' = (Ev.src = losers[0].source /\ (exhausted \/ Ev.min = losers'[0].source))
             /\ cnt' = [cnt EXCEPT !.pops = @ + 1,
                                   !.ties = @ + (IF \E t \in LT!Live : t # losers[0].source /\ LT!HeadOf(t) = LT!HeadOf(losers[0].source) THEN 1 ELSE 0)]
     ELSE UNCHANGED <<n, seqs, pos, k, losers, phase, nextIns, insync, nviol, ndrift, cnt>>   \* already reported for this tree
  /\ UNCHANGED <<x, done>>
TEnd == IsEvent("End") /\ UNCHANGED <<x, n, seqs, pos, k, losers, phase, nextIns, insync, nviol, ndrift, cnt, done>>
TDone == /\ l = NLines + 1 /\ ~done /\ PrintT(<<"TRACE-DONE", NLines, nviol, ndrift>>)
         /\ \A f \in DOMAIN cnt : PrintT(<<"TRACE-COUNT", f, cnt[f]>>)
         /\ done' = TRUE /\ UNCHANGED <<l, x, n, seqs, pos, k, losers, phase, nextIns, insync, nviol, ndrift, cnt>>
TNext == TReset \/ TBuild \/ TPop \/ TEnd \/ TDone
TSpec == TInit /\ [][TNext]_vars
TraceAccepted == TLCGet("stats").diameter = NLines + 1
=============================================================================
