------------------------------- MODULE Reject -------------------------------
(***************************************************************************)
(* The precondition rules of C20 as a state machine: every public entry    *)
(* point that has a documented precondition is an action pair              *)
(* Accept... (precondition holds, state changes) / Reject... (precondition *)
(* violated: an exception of the documented type is raised and NOTHING     *)
(* changes).  State: one static index (the sequence it was built on, or    *)
(* <<>>), one dynamic container (a map, abstracted), the last outcome.     *)
(***************************************************************************)
EXTENDS Naturals, Integers, Sequences, FiniteSets, TLC
CONSTANTS Keys,        \* small key universe 0..K-1; the reserved key is Reserved
          Reserved, ReservedVal, Vals, MaxLen
VARIABLES static, dyn, dynOpen, out
vars == <<static, dyn, dynOpen, out>>
AllKeys == Keys \cup {Reserved}
SortedSeqs(S, n) == UNION {{s \in [1..m -> S] : \A i \in 1..(m - 1) : s[i] <= s[i + 1]} : m \in 1..n}
AnySeqs(S, n) == UNION {[1..m -> S] : m \in 1..n}
Contains(s, v) == \E i \in 1..Len(s) : s[i] = v
Sorted(s) == \A i \in 1..(Len(s) - 1) : s[i] <= s[i + 1]

Init == static = <<>> /\ dyn = [k \in Keys |-> 0] /\ dynOpen = FALSE /\ out = "none"
\* building a static index (any class, or the C wrapper) on sorted data
AcceptBuild(d) == ~Contains(d, Reserved) /\ static' = d /\ out' = "ok" /\ UNCHANGED <<dyn, dynOpen>>
RejectBuild(d) == Contains(d, Reserved) /\ out' = "invalid_argument" /\ UNCHANGED <<static, dyn, dynOpen>>
\* DynamicPGMIndex(first, last, base, ...)
AcceptOpen(keys, base) == /\ Sorted(keys) /\ base \in {2, 4, 8} /\ ~dynOpen
                          /\ dynOpen' = TRUE /\ dyn' = [k \in Keys |-> IF Contains(keys, k) THEN 1 ELSE 0]
                          /\ out' = "ok" /\ UNCHANGED static
RejectOpen(keys, base) == /\ (~Sorted(keys) \/ base \notin {2, 4, 8}) /\ ~dynOpen
                          /\ out' = "invalid_argument" /\ UNCHANGED <<static, dyn, dynOpen>>
AcceptPut(k, v) == dynOpen /\ v # ReservedVal /\ dyn' = [dyn EXCEPT ![k] = v] /\ out' = "ok" /\ UNCHANGED <<static, dynOpen>>
RejectPut(k, v) == dynOpen /\ v = ReservedVal /\ out' = "invalid_argument" /\ UNCHANGED <<static, dyn, dynOpen>>
AcceptRange(lo, hi) == dynOpen /\ lo <= hi /\ out' = "ok" /\ UNCHANGED <<static, dyn, dynOpen>>
RejectRange(lo, hi) == dynOpen /\ lo > hi /\ out' = "invalid_argument" /\ UNCHANGED <<static, dyn, dynOpen>>
Next == \/ \E d \in SortedSeqs(AllKeys, MaxLen) : AcceptBuild(d) \/ RejectBuild(d)
        \/ \E ks \in AnySeqs(Keys, MaxLen), b \in 2..9 : AcceptOpen(ks, b) \/ RejectOpen(ks, b)
        \/ \E k \in Keys, v \in Vals \cup {ReservedVal} : AcceptPut(k, v) \/ RejectPut(k, v)
        \/ \E lo \in Keys, hi \in Keys : AcceptRange(lo, hi) \/ RejectRange(lo, hi)
Spec == Init /\ [][Next]_vars
\* the reserved key is never inside a built index; the reserved value is never stored as a live value
NeverIndexed == ~Contains(static, Reserved) /\ \A k \in Keys : dyn[k] # ReservedVal
\* a rejected call changes nothing
RejectionsArePure == [][out' = "invalid_argument" => UNCHANGED <<static, dyn, dynOpen>>]_vars
\* every attempt is answered (no precondition falls between Accept and Reject)
Total == \A d \in SortedSeqs(AllKeys, MaxLen) : ENABLED AcceptBuild(d) \/ ENABLED RejectBuild(d)
=============================================================================
