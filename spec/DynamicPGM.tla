--------------------------- MODULE DynamicPGM ---------------------------
(***************************************************************************)
(* Implementation-shaped specification of pgm::DynamicPGMIndex             *)
(* (include/pgm/pgm_index_dynamic.hpp): a buffer plus geometrically        *)
(* growing sorted runs ("levels", newest first) with tombstones, one       *)
(* optional static index per run, and the read operations (find,           *)
(* lower_bound, iteration through the loser tree, range, size, empty)      *)
(* transcribed from the code.                                              *)
(*                                                                         *)
(* One action per critical section of the code:                            *)
(*   BulkLoad            constructor from a sorted range (Init)            *)
(*   OverwriteInBuffer   insert(): key already in the buffer               *)
(*   InsertInBuffer      insert(): room in the buffer                      *)
(*   MergeInsert         insert(): choose target + pairwise_merge cascade  *)
(*                       + reset of emptied indexes + rebuild of target's  *)
(* Put / Del are the public insert_or_assign / erase, each = one of the    *)
(* three cases above applied to a live item / a tombstone.                 *)
(*                                                                         *)
(* The embedded static index of a level is abstract: idx[l] is the key     *)
(* sequence it was built on and a query may return ANY range that honours  *)
(* the static contract (C01 /\ C02 with half-width IdxEps) for that        *)
(* sequence.  Properties are stated against the ghost variable map (the    *)
(* ordered-map meaning of the history).                                    *)
(***************************************************************************)
EXTENDS Naturals, Integers, Sequences, FiniteSets, TLC

CONSTANTS Base,           \* growth factor (a power of two)
          MinLevel,       \* buffer_level: levels 0..MinLevel are fused in the buffer
          MinIndexLevel,  \* first level that owns a static index (> MinLevel)
          MaxLvl,         \* levels modelled: MinLevel..MaxLvl
          Keys, Vals,     \* key universe (naturals) and live values (positive naturals)
          IdxEps,         \* half-width parameter of the embedded static index
          MaxOps,         \* bound on the number of updates (for bounded configs)
          Bulks           \* set of bulk-load inputs (sequences of <<k, v>>)

VARIABLES levels,   \* [Lvls -> Seq([k, v, d])]  items of each level in key order
          used,     \* used_levels
          idx,      \* [Lvls -> Seq(key)]  keys the level's index was built on (<<>>: none / reset)
          map,      \* ghost: [Keys -> Vals \cup {NoVal}]
          ops,      \* ghost: number of updates so far
          hist      \* ghost: the updates so far (only kept when RecordHist)

CONSTANT RecordHist
vars == <<levels, used, idx, map, ops, hist>>

NoVal == 0
Lvls == MinLevel..MaxLvl
Item(k, v, d) == [k |-> k, v |-> v, d |-> d]
KeysOf(s) == [i \in 1..Len(s) |-> s[i].k]

RECURSIVE Pow(_,_)
Pow(b, e) == IF e = 0 THEN 1 ELSE b * Pow(b, e - 1)
MaxSize(l) == Pow(Base, l)                       \* max_size(l)
RECURSIVE SumPow(_)
SumPow(j) == IF j = 0 THEN 1 ELSE Pow(Base, j) + SumPow(j - 1)
BufMax == SumPow(MinLevel)                       \* buffer_max_size

RECURSIVE CeilLog2(_)
CeilLog2(n) == IF n <= 1 THEN 0 ELSE 1 + CeilLog2((n + 1) \div 2)
CeilLogBase(n) == (CeilLog2(n) + CeilLog2(Base) - 1) \div CeilLog2(Base)

(***************************************************************************)
(* merge<SkipDeleted, _>(first1 = newer run a, first2 = older run b)       *)
(***************************************************************************)
RECURSIVE Merge(_,_,_,_,_,_)
Merge(a, i, b, j, skip, acc) ==
  IF i > Len(a) THEN acc \o SubSeq(b, j, Len(b))
  ELSE IF j > Len(b) THEN acc \o SubSeq(a, i, Len(a))
  ELSE IF b[j].k < a[i].k THEN Merge(a, i, b, j + 1, skip, Append(acc, b[j]))
  ELSE IF a[i].k < b[j].k THEN Merge(a, i + 1, b, j, skip, Append(acc, a[i]))
  ELSE IF skip /\ a[i].d THEN Merge(a, i + 1, b, j + 1, skip, acc)
  ELSE Merge(a, i + 1, b, j + 1, skip, Append(acc, a[i]))

\* 1-based position of the first element with key >= k (Len+1 if none) / with key > k
LBPos(s, k) == 1 + Cardinality({i \in 1..Len(s) : s[i].k < k})
UBPos(s, k) == 1 + Cardinality({i \in 1..Len(s) : s[i].k <= k})
InsertAt(s, p, it) == SubSeq(s, 1, p - 1) \o <<it>> \o SubSeq(s, p, Len(s))

(***************************************************************************)
(* insert(): choice of the target level, then the cascade of pairwise      *)
(* merges (permanent deletion only when merging with the last used level). *)
(***************************************************************************)
RECURSIVE Target(_,_)
Target(i, req) == IF i >= used THEN <<i, req>>
                  ELSE IF req <= MaxSize(i) - Len(levels[i]) THEN <<i, req>>
                  ELSE Target(i + 1, req + Len(levels[i]))

RECURSIVE Cascade(_,_,_,_)
Cascade(tmp, i, limit, usedNew) ==
  IF i > limit THEN tmp
  ELSE Cascade(Merge(tmp, 1, levels[i], 1, i = usedNew - 1, <<>>), i + 1, limit, usedNew)

InBufferPos(it) == LBPos(levels[MinLevel], it.k)
InBuffer(it) == LET buf == levels[MinLevel] p == InBufferPos(it) IN p <= Len(buf) /\ buf[p].k = it.k

OverwriteInBuffer(it) ==
  /\ InBuffer(it)
  /\ levels' = [levels EXCEPT ![MinLevel] = [levels[MinLevel] EXCEPT ![InBufferPos(it)] = it]]
  /\ UNCHANGED <<used, idx>>

InsertInBuffer(it) ==
  /\ ~InBuffer(it)
  /\ Len(levels[MinLevel]) < BufMax
  /\ levels' = [levels EXCEPT ![MinLevel] = InsertAt(levels[MinLevel], InBufferPos(it), it)]
  /\ used' = IF used = MinLevel THEN MinLevel + 1 ELSE used
  /\ UNCHANGED idx

MergeTarget == Target(MinLevel + 1, BufMax + 1)

MergeInsert(it) ==
  /\ ~InBuffer(it)
  /\ Len(levels[MinLevel]) >= BufMax
  /\ LET buf == levels[MinLevel]
         t == MergeTarget[1]
         usedNew == IF t = used THEN used + 1 ELSE used
         limit == IF levels[t] = <<>> THEN t - 1 ELSE t
         merged == Cascade(InsertAt(buf, InBufferPos(it), it), MinLevel + 1, limit, usedNew)
     IN /\ t <= MaxLvl
        /\ used' = usedNew
        /\ levels' = [l \in Lvls |-> IF l = t THEN merged ELSE IF l < t THEN <<>> ELSE levels[l]]
        /\ idx' = [l \in Lvls |-> IF l = t THEN (IF l >= MinIndexLevel THEN KeysOf(merged) ELSE <<>>)
                                  ELSE IF l < t THEN <<>> ELSE idx[l]]

Insert(it) == OverwriteInBuffer(it) \/ InsertInBuffer(it) \/ MergeInsert(it)

(***************************************************************************)
(* Constructor from a sorted range: first of each group of equal keys.     *)
(***************************************************************************)
RECURSIVE Dedup(_,_,_)
Dedup(b, i, acc) == IF i > Len(b) THEN acc
                    ELSE IF acc # <<>> /\ acc[Len(acc)].k = b[i][1] THEN Dedup(b, i + 1, acc)
                    ELSE Dedup(b, i + 1, Append(acc, Item(b[i][1], b[i][2], FALSE)))
SortedBulk(b) == \A i \in 1..(Len(b) - 1) : b[i][1] <= b[i + 1][1]

EmptyLevels == [l \in Lvls |-> <<>>]
\* the state the constructor leaves: a record [levels, used, idx, map]; "ok" is FALSE when MaxLvl is too small
BulkState(b) ==
  IF b = <<>>
  THEN [ok |-> TRUE, levels |-> EmptyLevels, used |-> MinLevel, idx |-> EmptyLevels, map |-> [k \in Keys |-> NoVal]]
  ELSE LET n == Len(b)
           u == (IF CeilLogBase(n) > MinLevel THEN CeilLogBase(n) ELSE MinLevel) + 1
           items == Dedup(b, 1, <<>>)
       IN [ok |-> u - 1 <= MaxLvl,
           used |-> u,
           levels |-> [l \in Lvls |-> IF l = u - 1 THEN items ELSE <<>>],
           idx |-> [l \in Lvls |-> IF l = u - 1 /\ l >= MinIndexLevel THEN KeysOf(items) ELSE <<>>],
           map |-> [k \in Keys |-> IF \E i \in 1..Len(items) : items[i].k = k
                                   THEN items[CHOOSE i \in 1..Len(items) : items[i].k = k].v ELSE NoVal]]

Init == /\ \E b \in Bulks : /\ SortedBulk(b) /\ BulkState(b).ok
                             /\ levels = BulkState(b).levels /\ used = BulkState(b).used
                             /\ idx = BulkState(b).idx /\ map = BulkState(b).map
                             /\ hist = IF RecordHist THEN <<<<"Bulk", b, 0>>>> ELSE <<>>
        /\ ops = 0

Put(k, v) == /\ Insert(Item(k, v, FALSE)) /\ map' = [map EXCEPT ![k] = v] /\ ops' = ops + 1
             /\ hist' = IF RecordHist THEN Append(hist, <<"Put", k, v>>) ELSE hist
Del(k)    == /\ Insert(Item(k, NoVal, TRUE)) /\ map' = [map EXCEPT ![k] = NoVal] /\ ops' = ops + 1
             /\ hist' = IF RecordHist THEN Append(hist, <<"Del", k, 0>>) ELSE hist
Next == ops < MaxOps /\ \E k \in Keys : (\E v \in Vals : Put(k, v)) \/ Del(k)
Spec == Init /\ [][Next]_vars

(***************************************************************************)
(* Refinement mapping and the C15 invariants                               *)
(***************************************************************************)
Holders(k) == {l \in Lvls : \E i \in 1..Len(levels[l]) : levels[l][i].k = k}
EntryAt(l, k) == levels[l][CHOOSE i \in 1..Len(levels[l]) : levels[l][i].k = k]
AbsVal(k) == IF Holders(k) = {} THEN NoVal
             ELSE LET l == CHOOSE x \in Holders(k) : \A y \in Holders(k) : x <= y
                      e == EntryAt(l, k) IN IF e.d THEN NoVal ELSE e.v
Refines == \A k \in Keys : AbsVal(k) = map[k]

SortedStrict == \A l \in Lvls : \A i \in 1..(Len(levels[l]) - 1) : levels[l][i].k < levels[l][i + 1].k
Capacity == /\ Len(levels[MinLevel]) <= BufMax
            /\ \A l \in Lvls : l > MinLevel => Len(levels[l]) <= MaxSize(l)
NothingBeyondUsed == \A l \in Lvls : l >= used => levels[l] = <<>>
IndexFresh == \A l \in Lvls : IF l >= MinIndexLevel THEN idx[l] = KeysOf(levels[l]) ELSE idx[l] = <<>>
TombstoneCoded == \A l \in Lvls : \A i \in 1..Len(levels[l]) :
                      (levels[l][i].d <=> levels[l][i].v = NoVal)
C15 == SortedStrict /\ Capacity /\ NothingBeyondUsed /\ IndexFresh /\ TombstoneCoded

(***************************************************************************)
(* The embedded static index: every range it may return for key q on the   *)
(* key sequence ks it was built on (0-based lo, hi like the code).         *)
(***************************************************************************)
LBk(ks, q) == Cardinality({i \in 1..Len(ks) : ks[i] < q})       \* 0-based lower bound
Admissible(ks, q) ==
  {r \in (0..Len(ks)) \X (0..Len(ks)) :
      /\ r[1] <= r[2] /\ r[2] - r[1] <= 2 * IdxEps + 2
      /\ r[1] + Cardinality({i \in (r[1] + 1)..r[2] : ks[i] < q}) = LBk(ks, q)      \* C02
      /\ ((\E i \in 1..Len(ks) : ks[i] = q) => r[1] <= LBk(ks, q) /\ LBk(ks, q) < r[2])}  \* C01

(***************************************************************************)
(* lower_bound_bl(first, last, x): branch-free binary search, transcribed. *)
(* s is the level, [lo, hi) 0-based; returns a 0-based position.           *)
(***************************************************************************)
RECURSIVE BLoop(_,_,_,_)
BLoop(s, first, n, x) == IF n <= 1 THEN first
                         ELSE LET half == n \div 2 IN
                              BLoop(s, IF s[first + half + 1].k < x THEN first + half ELSE first, n - half, x)
LowerBoundBL(s, lo, hi, x) ==
  IF lo = hi THEN lo
  ELSE LET f == BLoop(s, lo, hi - lo, x) IN IF s[f + 1].k < x THEN f + 1 ELSE f

\* every array access of lower_bound_bl stays inside [lo, hi)
RECURSIVE BLoopInBounds(_,_,_,_,_)
BLoopInBounds(s, first, n, x, hi) ==
  IF n <= 1 THEN first < hi
  ELSE LET half == n \div 2 IN
       /\ first + half < hi
       /\ BLoopInBounds(s, IF s[first + half + 1].k < x THEN first + half ELSE first, n - half, x, hi)

\* Whatever admissible range the index returns, the search inside it lands on the global lower bound.
RangeIrrelevant ==
  \A l \in Lvls : idx[l] # <<>> /\ Len(idx[l]) = Len(levels[l]) =>
     \A q \in Keys : \A r \in Admissible(idx[l], q) :
        /\ LowerBoundBL(levels[l], r[1], r[2], q) = LBPos(levels[l], q) - 1
        /\ (r[1] < r[2] => BLoopInBounds(levels[l], r[1], r[2] - r[1], q, r[2]))

(***************************************************************************)
(* find(): newest-first probe, first hit decides.                          *)
(***************************************************************************)
RECURSIVE FindFrom(_,_)
FindFrom(l, k) == IF l >= used \/ l > MaxLvl THEN NoVal
                  ELSE IF l \in Holders(k) THEN (LET e == EntryAt(l, k) IN IF e.d THEN NoVal ELSE e.v)
                  ELSE FindFrom(l + 1, k)
FindImpl(k) == FindFrom(MinLevel, k)
CountImpl(k) == IF FindImpl(k) = NoVal THEN 0 ELSE 1

(***************************************************************************)
(* lower_bound(): per-level scan with the set of deleted keys.             *)
(* Result: <<>> (end) or <<level, pos>>.                                   *)
(***************************************************************************)
RECURSIVE LBScan(_,_,_,_,_), LBLevels(_,_,_,_)
LBScan(l, i, key, lb, del) ==
  IF i > Len(levels[l]) \/ (lb # <<>> /\ ~(levels[l][i].k < levels[lb[1]][lb[2]].k)) THEN <<lb, del, FALSE>>
  ELSE LET e == levels[l][i] IN
       IF e.d THEN LBScan(l, i + 1, key, lb, del \cup {e.k})
       ELSE IF e.k \notin del THEN <<<<l, i>>, del, e.k = key>>
       ELSE LBScan(l, i + 1, key, lb, del)
LBLevels(l, key, lb, del) ==
  IF l >= used \/ l > MaxLvl THEN lb
  ELSE IF levels[l] = <<>> THEN LBLevels(l + 1, key, lb, del)
  ELSE LET r == LBScan(l, LBPos(levels[l], key), key, lb, del) IN
       IF r[3] THEN r[1] ELSE LBLevels(l + 1, key, r[1], r[2])
LowerBoundImpl(key) == LBLevels(MinLevel, key, <<>>, {})
PairAt(c) == IF c = <<>> THEN <<>> ELSE <<levels[c[1]][c[2]].k, levels[c[1]][c[2]].v>>

(***************************************************************************)
(* Iterator: lazy_initialize() positions one cursor per non-empty level    *)
(* after the current key; advance() pops the minimum (ties: newest level), *)
(* skips equal keys, skips tombstones.  cur : [Lvls -> position].          *)
(***************************************************************************)
Live(cur) == {l \in Lvls : l < used /\ cur[l] <= Len(levels[l])}
MinSrc(cur) == CHOOSE l \in Live(cur) :
                  \A m \in Live(cur) : \/ levels[l][cur[l]].k < levels[m][cur[m]].k
                                       \/ (levels[l][cur[l]].k = levels[m][cur[m]].k /\ l <= m)
StepCur(cur) == [cur EXCEPT ![MinSrc(cur)] = @ + 1]
RECURSIVE SkipEqual(_,_)
SkipEqual(cur, k) == IF Live(cur) # {} /\ levels[MinSrc(cur)][cur[MinSrc(cur)]].k = k
                     THEN SkipEqual(StepCur(cur), k) ELSE cur
\* advance(): returns <<item or <<>>, cur'>>
RECURSIVE Advance(_)
Advance(cur) ==
  IF Live(cur) = {} THEN <<<<>>, cur>>
  ELSE LET s == MinSrc(cur)
           tmp == levels[s][cur[s]]
           c2 == SkipEqual(StepCur(cur), tmp.k)
       IN IF Live(c2) # {} /\ tmp.d THEN Advance(c2)
          ELSE IF tmp.d THEN <<<<>>, c2>> ELSE <<<<tmp.k, tmp.v>>, c2>>
RECURSIVE Drain(_,_)
Drain(cur, acc) == LET r == Advance(cur) IN IF r[1] = <<>> THEN acc ELSE Drain(r[2], Append(acc, r[1]))
InitCursors(k) == [l \in Lvls |-> UBPos(levels[l], k)]
\* the whole traversal that starts at lower_bound(from)
IterImpl(from) == LET c == LowerBoundImpl(from) IN
                  IF c = <<>> THEN <<>>
                  ELSE Drain(InitCursors(levels[c[1]][c[2]].k), <<PairAt(c)>>)
MinKey == CHOOSE k \in Keys : \A j \in Keys : k <= j
SizeImpl == Len(IterImpl(MinKey))
EmptyImpl == LowerBoundImpl(MinKey) = <<>>

(***************************************************************************)
(* range(lo, hi): per-level slices merged newest-first, tombstones last.   *)
(***************************************************************************)
RECURSIVE RangeLevels(_,_,_,_)
RangeLevels(l, lo, hi, tmp) ==
  IF l >= used \/ l > MaxLvl THEN tmp
  ELSE LET s == levels[l]
           a == LBPos(s, lo)
           b == UBPos(s, hi)      \* one past
       IN IF s = <<>> \/ b <= a THEN RangeLevels(l + 1, lo, hi, tmp)
          ELSE RangeLevels(l + 1, lo, hi, Merge(tmp, 1, SubSeq(s, a, b - 1), 1, FALSE, <<>>))
RECURSIVE DropDeleted(_,_,_)
DropDeleted(s, i, acc) == IF i > Len(s) THEN acc
                          ELSE DropDeleted(s, i + 1, IF s[i].d THEN acc ELSE Append(acc, <<s[i].k, s[i].v>>))
RangeImpl(lo, hi) == DropDeleted(RangeLevels(MinLevel, lo, hi, <<>>), 1, <<>>)

(***************************************************************************)
(* The ordered-map oracles (independent of the layout)                     *)
(***************************************************************************)
LiveKeys == {k \in Keys : map[k] # NoVal}
MinKeyOf == CHOOSE k \in Keys : \A j \in Keys : k <= j
MaxKey == CHOOSE k \in Keys : \A j \in Keys : k >= j
\* the live pairs with lo <= key <= hi in key order, at most `limit` of them (Keys is an interval of integers)
RECURSIVE PairsFrom(_,_,_,_)
PairsFrom(k, hi, limit, acc) ==
  IF k > hi \/ Len(acc) >= limit THEN acc
  ELSE PairsFrom(k + 1, hi, limit, IF k \in Keys /\ map[k] # NoVal THEN Append(acc, <<k, map[k]>>) ELSE acc)
MapPairsUpTo(lo, hi, limit) == PairsFrom(lo, hi, limit, <<>>)
MapPairs(lo, hi) == PairsFrom(lo, hi, Cardinality(Keys) + 1, <<>>)
MapLowerBound(q) == LET r == PairsFrom(q, MaxKey, 1, <<>>) IN IF r = <<>> THEN <<>> ELSE r[1]

C05 == \A k \in Keys : /\ FindImpl(k) = map[k]
                       /\ CountImpl(k) = (IF map[k] = NoVal THEN 0 ELSE 1)
                       /\ PairAt(LowerBoundImpl(k)) = MapLowerBound(k)
C06 == /\ \A from \in Keys : IterImpl(from) = MapPairs(from, MaxKey)
       /\ \A lo \in Keys : \A hi \in Keys : lo <= hi => RangeImpl(lo, hi) = MapPairs(lo, hi)
       /\ SizeImpl = Cardinality(LiveKeys)
       /\ (EmptyImpl <=> LiveKeys = {})

View == <<levels, used, idx, map>>
\* bounded configurations keep the update counter in the fingerprint (hiding it would make the bound depend on the order
\* in which parallel workers reach a layout)
ViewBounded == <<levels, used, idx, map, ops>>
\* the bound MaxLvl never silently disables a merge in the explored configuration
NoTruncation == Len(levels[MinLevel]) >= BufMax => MergeTarget[1] <= MaxLvl

(***************************************************************************)
(* Reachability witnesses (vacuity guards): each must be VIOLATED by TLC   *)
(* in a configuration that claims to have exercised the invariants.        *)
(***************************************************************************)
WitnessThreeHolders == ~(\E k \in Keys : Cardinality(Holders(k)) >= 3)
WitnessFullLevel == ~(\E l \in Lvls : l > MinLevel /\ Len(levels[l]) = MaxSize(l))
WitnessTombstoneDeep == ~(\E l \in Lvls : l > MinLevel + 1 /\ \E i \in 1..Len(levels[l]) : levels[l][i].d)
WitnessIndexReset == ~(\E l \in Lvls : l >= MinIndexLevel /\ l < used /\ levels[l] = <<>> /\ used > l + 1)
WitnessPermanentDelete == [][~(\E k \in Keys : Holders(k) # {} /\ Holders(k)' = {})]_vars
WitnessFourLevels == used <= MinLevel + 3
=============================================================================
