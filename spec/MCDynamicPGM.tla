--------------------------- MODULE MCDynamicPGM ---------------------------
(* Model-checking instance of DynamicPGM: definitions that a .cfg file cannot express. *)
EXTENDS DynamicPGM, Json

BulksEmpty == {<<>>}
\* every sorted list of at most MaxBulk pairs over Keys x Vals (equal keys allowed: first wins), plus one unsorted list
CONSTANT MaxBulk
RECURSIVE SortedLists(_)
SortedLists(n) == IF n = 0 THEN {<<>>}
                  ELSE LET P == SortedLists(n - 1) IN
                       P \cup {Append(s, <<k, v>>) : s \in {t \in P : Len(t) = n - 1}, k \in Keys, v \in Vals}
BulksSorted == {b \in SortedLists(MaxBulk) : SortedBulk(b)}

\* spec -> code: in simulation mode every behaviour that reaches MaxOps updates is printed as JSON; the driver feeds
\* these histories to harness/rec_dynamic (--hist), whose recording goes back through DynTrace.tla
EmitHist == (ops = MaxOps) => PrintT(<<"HIST", ToJson(hist)>>)
\* Reachability witnesses that also emit the (shortest) history reaching them: TLC must VIOLATE each of these; the printed
\* history is replayed on the real container (coverage driven by the model)
Emit(cond) == cond => ~PrintT(<<"HIST", ToJson(hist)>>)
EW_ThreeHolders == Emit(\E k \in Keys : Cardinality(Holders(k)) >= 3)
EW_FullLevel == Emit(\E l \in Lvls : l > MinLevel /\ Len(levels[l]) = MaxSize(l))
EW_TombstoneDeep == Emit(\E l \in Lvls : l > MinLevel + 1 /\ \E i \in 1..Len(levels[l]) : levels[l][i].d)
EW_IndexReset == Emit(\E l \in Lvls : l >= MinIndexLevel /\ l < used /\ levels[l] = <<>> /\ used > l + 1)
EW_FourLevels == Emit(used > MinLevel + 3)
\* the last used level was emptied by a merge into itself (every entry cancelled by a tombstone)
EW_LastLevelEmptied == Emit(used > MinLevel + 1 /\ levels[used - 1] = <<>> /\ ops > 0 /\ hist[Len(hist)][1] = "Del")
\* a key present in some level disappears from every level in one step
EW_PermanentDelete == [][(\E k \in Keys : Holders(k) # {} /\ Holders(k)' = {}) => ~PrintT(<<"HIST", ToJson(hist')>>)]_vars
=============================================================================
