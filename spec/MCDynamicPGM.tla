--------------------------- MODULE MCDynamicPGM ---------------------------
(* Model-checking instance of DynamicPGM: definitions that a .cfg file cannot express. *)
EXTENDS DynamicPGM, Json

BulksEmpty == {<<>>}
\* every sorted list of at most MaxBulk pairs over Keys x Vals (equal keys allowed: first wins), plus one unsorted list
CONSTANT MaxBulk
RECURSIVE SortedLists(_)
SortedLists(n) == IF n = 0 THEN {<<>>}
                  ELSE LET P == SortedLists(n - 1) IN
                       P \cup {Append(s, <<k, v>>) : s \in {t \in P : Len(t) = n - 1}, k \in Keys, v \in Vals}
BulksSorted == {b \in SortedLists(MaxBulk) : SortedBulk(b)}

\* spec -> code: in simulation mode every behaviour that reaches MaxOps updates is printed as JSON; the driver feeds
\* these histories to harness/rec_dynamic (--hist), whose recording goes back through DynTrace.tla
EmitHist == (ops = MaxOps) => PrintT(<<"HIST", ToJson(hist)>>)
\* BFS: every history of exactly MaxOps updates (no VIEW: histories are distinct states)
=============================================================================
