CONSTANTS U = 8
 N = 6
 Eps = 1
 MaxChunks = 3
 UseDP = TRUE
SPECIFICATION Spec
INVARIANTS C03Holds C04Holds GreedyIsOptimal
CHECK_DEADLOCK FALSE
