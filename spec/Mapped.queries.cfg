CONSTANTS Mode = "queries"
 U = 4
 N = 9
 Eps = 1
 MaxActs = 0
 RawStoresFirstKey = TRUE
SPECIFICATION Spec
INVARIANTS C11 GallopInBounds
CHECK_DEADLOCK FALSE
