----------------------------- MODULE BoundsTrace -----------------------------
(***************************************************************************)
(* Trace specification for C17.  It reads the recordings of ALL recorders  *)
(* (static, variants, dynamic, mapped, multidimensional, C interface,      *)
(* rejections), produced by binaries built with AddressSanitizer, and      *)
(* requires of each execution                                              *)
(*   - that it ran to its End line: an out-of-bounds access or a use of    *)
(*     freed storage aborts the recorder, which then appends a Crash line  *)
(*     for which there is no action here (the trace is not accepted);      *)
(*   - that every logged index of the unchecked-access sites is inside its *)
(*     structure: the per-level descent (window start, window end, chosen  *)
(*     segment vs. level size), the bucket and its slice vs. the table and *)
(*     segment array, the Elias-Fano predecessor index, the returned range *)
(*     vs. n, the landing position of a Z-order jump vs. the data.         *)
(* (The InBounds invariants of PGMIndex / Variants / Multidim / Mapped /   *)
(* DynamicPGM state the same for the modelled sites on all small inputs.)  *)
(***************************************************************************)
EXTENDS Naturals, Integers, Sequences, FiniteSets, TLC, Json, IOUtils
Trc == ndJsonDeserialize(IOEnv.TRACE)
NLines == Len(Trc)
VARIABLES l, x, open, n, nseg, ntop, npts, nviol, cnt, done
vars == <<l, x, open, n, nseg, ntop, npts, nviol, cnt, done>>
Ev == Trc[l]
Has(f) == f \in DOMAIN Ev
Viol(what) == PrintT(<<"TRACE-VIOLATION", "C17", l, x, what>>)
RECURSIVE CountFailed(_,_)
CountFailed(checks, i) == IF i > Len(checks) THEN 0
                          ELSE (IF checks[i][1] THEN 0 ELSE (IF Viol(checks[i][2]) THEN 1 ELSE 1)) + CountFailed(checks, i + 1)

TInit == l = 2 /\ x = -1 /\ open = FALSE /\ n = 0 /\ nseg = 0 /\ ntop = 0 /\ npts = 0 /\ nviol = 0
         /\ cnt = [executions |-> 0, lines |-> 0, index_checks |-> 0] /\ done = FALSE
Step == l <= NLines /\ l' = l + 1 /\ cnt' = [cnt EXCEPT !.lines = @ + 1, !.executions = @ + (IF Ev.e = "End" THEN 1 ELSE 0),
                                                         !.index_checks = @ + (IF Ev.e \in {"Search", "Range"} THEN 1 ELSE 0)]
TReset == /\ Step /\ Ev.e = "Reset"
          /\ nviol' = nviol + CountFailed(<< <<~open, "previous_execution_did_not_finish">> >>, 1)
          /\ x' = Ev.x /\ open' = TRUE /\ n' = 0 /\ nseg' = 0 /\ ntop' = 0 /\ npts' = 0 /\ UNCHANGED done
TEnd == Step /\ Ev.e = "End" /\ open' = FALSE /\ UNCHANGED <<x, n, nseg, ntop, npts, nviol, done>>
TBuild == /\ Step /\ Ev.e = "Build"
          /\ n' = Len(Ev.data)
          /\ nseg' = (IF Has("skeys") THEN Len(Ev.skeys) ELSE 0) /\ ntop' = (IF Has("top") THEN Len(Ev.top) ELSE 0)
          /\ UNCHANGED <<x, open, npts, nviol, done>>
TPoints == Step /\ Ev.e = "Points" /\ npts' = Len(Ev.pts) /\ UNCHANGED <<x, open, n, nseg, ntop, nviol, done>>
\* route entry: <<level, predicted, window lo, window hi, chosen, level size>>
RouteIn(r) == r[3] < r[6] /\ r[5] < r[6] /\ r[5] + 1 < r[6] /\ r[4] <= r[6] - 1 /\ r[2] <= r[6]
TSearch ==
  /\ Step /\ Ev.e = "Search"
  /\ nviol' = nviol + CountFailed(<<
        <<Ev.lo <= Ev.hi /\ Ev.hi <= n, "returned_range_outside_the_data">>,
        <<\A i \in 1..Len(Ev.route) : RouteIn(Ev.route[i]), "descent_left_its_level">>,
        <<(Has("bk") /\ Ev.bk >= 0) => (Ev.bk + 2 <= ntop /\ Ev.sl[1] <= Ev.sl[2] /\ Ev.sl[2] <= nseg /\ Ev.seg >= 0 /\ Ev.seg + 1 < nseg), "bucket_or_slice_outside_the_table">>,
        <<(Has("pr") /\ Len(Ev.pr) = 2) => (Ev.pr[1] >= 0 /\ Ev.pr[1] + 1 < nseg), "predecessor_index_outside_the_segments">> >>, 1)
  /\ UNCHANGED <<x, open, n, nseg, ntop, npts, done>>
TRange == /\ Step /\ Ev.e = "Range"
          /\ nviol' = nviol + CountFailed(<<
                <<Len(Ev.res) <= npts, "more_points_returned_than_stored">>,
                <<\A i \in 1..Len(Ev.jumps) : Ev.jumps[i][3] >= 1 /\ Ev.jumps[i][3] <= npts, "jump_landed_outside_the_data">> >>, 1)
          /\ UNCHANGED <<x, open, n, nseg, ntop, npts, done>>
\* every other line of a finished execution is accepted as it is (its content is judged by the other trace specifications)
TOther == /\ Step /\ Ev.e \notin {"Reset", "End", "Build", "Points", "Search", "Range", "Crash"}
          /\ UNCHANGED <<x, open, n, nseg, ntop, npts, nviol, done>>
TDone == /\ l = NLines + 1 /\ ~done /\ PrintT(<<"TRACE-DONE", NLines, nviol, 0>>)
         /\ \A f \in DOMAIN cnt : PrintT(<<"TRACE-COUNT", f, cnt[f]>>)
         /\ done' = TRUE /\ UNCHANGED <<l, x, open, n, nseg, ntop, npts, nviol, cnt>>
TNext == TReset \/ TEnd \/ TBuild \/ TPoints \/ TSearch \/ TRange \/ TOther \/ TDone
TSpec == TInit /\ [][TNext]_vars
TraceAccepted == TLCGet("stats").diameter = NLines + 1
=============================================================================
