\* 5 keys so that a level can overflow if the capacity arithmetic is wrong; one value; bounded number of updates
CONSTANTS Base = 2
 MinLevel = 1
 MinIndexLevel = 2
 MaxLvl = 6
 Keys = {0,1,2,3,4}
 Vals = {1}
 IdxEps = 1
 MaxOps = 10
 Bulks <- BulksEmpty
 MaxBulk = 0
 RecordHist = FALSE
SPECIFICATION Spec
INVARIANTS Refines C15 C05 C06 RangeIrrelevant NoTruncation
VIEW ViewBounded
CHECK_DEADLOCK FALSE
