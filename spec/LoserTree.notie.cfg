CONSTANTS NSrcs = {2,3}
 Keys = {0,1}
 MaxLen = 2
 TieBreak = "none"
SPECIFICATION Spec
INVARIANTS WinnerIsMin
CHECK_DEADLOCK FALSE
